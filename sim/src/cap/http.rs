//! C15 / C16: crux_http. A simulated HTTP server behind the shell. C15: arbitrary results
//! (any status, header list, body, error) answered out of order must each yield exactly one
//! well-classified outcome and never panic. C16: middleware stacks and redirect graphs; the
//! sequence of requests the server sees and the nesting of middleware must equal a small
//! reference evaluator written from the statement.

use std::collections::BTreeMap;
use std::sync::Mutex;

use crux_core::bridge::Bridge;
use crux_core::{Command, Core, Request};
use crux_http::client::Client;
use crux_http::middleware::{Middleware, Next, Redirect};
use crux_http::protocol::{HttpHeader, HttpRequest, HttpResponse, HttpResult};
use crux_http::{HttpError, ResponseAsync};
use serde::{Deserialize, Serialize};
use serde_json::{json, Value};

use crate::rng::{fnv, mix, Rng};
use crate::runner::{catch, Check, Cov, RunInfo, Tier, Violation};

// ------------------------------------------------------------------------------------------------
// what the app asks and records

#[derive(Clone, Copy, Debug, PartialEq, Eq, Serialize, Deserialize)]
pub enum HApi {
    Command,
    Legacy,
    LegacyAsync,
}

#[derive(Clone, Copy, Debug, PartialEq, Eq, Serialize, Deserialize)]
pub enum Expect {
    Bytes,
    Text,
    Json,
}

#[derive(Clone, Debug, PartialEq, Eq, Serialize, Deserialize)]
pub enum Mw {
    /// pass-through, leaves enter/exit marks
    Marker(u8),
    /// answers itself with this status, never calls the rest of the chain
    ShortCircuit(u16),
    /// issues its own request through the client it is given, then continues
    Issuer(u8),
    /// ... and that nested request carries per-request middleware of its own (a marker)
    IssuerMarked(u8, u8),
    Redirect(u8),
    /// hands the request it was given to the client it was given (`client.send(req)`) instead of to the
    /// rest of the chain: that client carries no middleware and the request has given up its own, so this
    /// goes straight to the shell, once, and the rest of the chain is not run
    Resend(u8),
}

#[derive(Clone, Debug, PartialEq, Eq, Serialize, Deserialize)]
pub struct SendSpec {
    pub id: u32,
    pub api: HApi,
    pub post: bool,
    pub url: String,
    pub body: Option<Vec<u8>>,
    pub expect: Expect,
    pub client_mw: Vec<Mw>,
    pub req_mw: Vec<Mw>,
}

#[derive(Clone, Debug, PartialEq, Eq, Serialize, Deserialize)]
pub struct J {
    pub a: u32,
    pub b: String,
}

#[derive(Clone, Debug, PartialEq, Eq, Serialize, Deserialize)]
pub enum GotBody {
    None,
    Bytes(Vec<u8>),
    Text(String),
    Json(J),
}

#[derive(Clone, Debug, PartialEq, Eq, Serialize, Deserialize)]
pub enum GotErr {
    Http { code: u16, body: Option<Vec<u8>> },
    Json,
    Url(String),
    Io(String),
    Timeout,
}

#[derive(Clone, Debug, PartialEq, Eq, Serialize, Deserialize)]
pub enum Got {
    Ok { status: u16, headers: Vec<(String, String)>, body: GotBody },
    Err(GotErr),
}

#[derive(Clone, Debug, PartialEq, Eq, Serialize, Deserialize)]
pub enum HEvent {
    Send(SendSpec),
    Got { id: u32, got: Got },
}

#[derive(Default)]
pub struct HModel {
    log: Vec<(u32, Got)>,
}

#[derive(crux_core::macros::Effect)]
pub struct HCaps {
    pub http: crux_http::Http<HEvent>,
}

#[derive(Default)]
pub struct HApp;

static MARKS: Mutex<Vec<(u32, String)>> = Mutex::new(Vec::new());

fn mark(id: u32, s: String) {
    MARKS.lock().unwrap().push((id, s));
}

struct Marker(u32, u8);
struct ShortCircuit(u32, u16);
struct Issuer(u32, u8);
struct IssuerMarked(u32, u8, u8);
struct Resend(u32, u8);

#[async_trait::async_trait]
impl Middleware for Resend {
    async fn handle(&self, req: crux_http::Request, client: Client, _next: Next<'_>) -> crux_http::Result<ResponseAsync> {
        mark(self.0, format!("resend {}", self.1));
        client.send(req).await
    }
}

#[async_trait::async_trait]
impl Middleware for Marker {
    async fn handle(&self, req: crux_http::Request, client: Client, next: Next<'_>) -> crux_http::Result<ResponseAsync> {
        mark(self.0, format!("enter {}", self.1));
        let r = next.run(req, client).await;
        mark(self.0, format!("exit {}", self.1));
        r
    }
}

#[async_trait::async_trait]
impl Middleware for ShortCircuit {
    async fn handle(&self, _req: crux_http::Request, _client: Client, _next: Next<'_>) -> crux_http::Result<ResponseAsync> {
        mark(self.0, format!("short {}", self.1));
        Ok(HttpResponse::status(self.1).body(b"short".to_vec()).build().into())
    }
}

#[async_trait::async_trait]
impl Middleware for Issuer {
    async fn handle(&self, req: crux_http::Request, client: Client, next: Next<'_>) -> crux_http::Result<ResponseAsync> {
        mark(self.0, format!("issue {}", self.1));
        let _ = client.get(format!("https://sim.test/extra/{}?id={}", self.1, self.0)).await;
        let r = next.run(req, client).await;
        mark(self.0, format!("issued {}", self.1));
        r
    }
}

#[async_trait::async_trait]
impl Middleware for IssuerMarked {
    async fn handle(&self, req: crux_http::Request, client: Client, next: Next<'_>) -> crux_http::Result<ResponseAsync> {
        mark(self.0, format!("issue {}", self.1));
        let _ = client.get(format!("https://sim.test/extra/{}?id={}", self.1, self.0)).middleware(Marker(self.0, self.2)).await;
        let r = next.run(req, client).await;
        mark(self.0, format!("issued {}", self.1));
        r
    }
}

fn got_of<T>(r: crux_http::Result<crux_http::Response<T>>, f: impl FnOnce(Option<T>) -> GotBody) -> Got {
    match r {
        Ok(mut resp) => {
            let mut headers: Vec<(String, String)> = vec![];
            for (name, values) in resp.iter() {
                for v in values.iter() {
                    headers.push((name.as_str().to_string(), v.as_str().to_string()));
                }
            }
            headers.sort();
            let status = u16::from(resp.status());
            Got::Ok { status, headers, body: f(resp.take_body()) }
        }
        Err(e) => Got::Err(match e {
            HttpError::Http { code, body, .. } => GotErr::Http { code: u16::from(code), body },
            HttpError::Json(_) => GotErr::Json,
            HttpError::Url(s) => GotErr::Url(s),
            HttpError::Io(s) => GotErr::Io(s),
            HttpError::Timeout => GotErr::Timeout,
        }),
    }
}

type HCmd = Command<Effect, HEvent>;

macro_rules! with_mw {
    ($b:expr, $id:expr, $mws:expr) => {{
        let mut b = $b;
        for m in $mws {
            b = match m {
                Mw::Marker(k) => b.middleware(Marker($id, *k)),
                Mw::ShortCircuit(s) => b.middleware(ShortCircuit($id, *s)),
                Mw::Issuer(t) => b.middleware(Issuer($id, *t)),
                Mw::IssuerMarked(t, k) => b.middleware(IssuerMarked($id, *t, *k)),
                Mw::Redirect(n) => b.middleware(Redirect::new(*n)),
                Mw::Resend(k) => b.middleware(Resend($id, *k)),
            };
        }
        b
    }};
}

fn http_with_client_mw(http: &crux_http::Http<HEvent>, id: u32, mws: &[Mw]) -> crux_http::Http<HEvent> {
    let mut h = http.clone();
    for m in mws {
        h = match m {
            Mw::Marker(k) => h.verif_with_client_middleware(Marker(id, *k)),
            Mw::ShortCircuit(s) => h.verif_with_client_middleware(ShortCircuit(id, *s)),
            Mw::Issuer(t) => h.verif_with_client_middleware(Issuer(id, *t)),
            Mw::IssuerMarked(t, k) => h.verif_with_client_middleware(IssuerMarked(id, *t, *k)),
            Mw::Redirect(n) => h.verif_with_client_middleware(Redirect::new(*n)),
            Mw::Resend(k) => h.verif_with_client_middleware(Resend(id, *k)),
        };
    }
    h
}

impl crux_core::App for HApp {
    type Event = HEvent;
    type Model = HModel;
    type ViewModel = Vec<(u32, Got)>;
    type Capabilities = HCaps;
    type Effect = Effect;

    fn update(&self, event: HEvent, model: &mut HModel, caps: &HCaps) -> HCmd {
        match event {
            HEvent::Got { id, got } => {
                model.log.push((id, got));
                Command::done()
            }
            HEvent::Send(s) => {
                let id = s.id;
                match s.api {
                    HApi::Command => {
                        use crux_http::command::Http;
                        let mut b = if s.post { Http::<Effect, HEvent>::post(&s.url) } else { Http::<Effect, HEvent>::get(&s.url) };
                        b = b.header("x-id", id.to_string().as_str());
                        if let Some(body) = &s.body {
                            b = b.body_bytes(body);
                        }
                        let b = with_mw!(b, id, &s.req_mw);
                        match s.expect {
                            Expect::Bytes => b.build().then_send(move |r| HEvent::Got { id, got: got_of(r, |b| b.map_or(GotBody::None, GotBody::Bytes)) }),
                            Expect::Text => b.expect_string().build().then_send(move |r| HEvent::Got { id, got: got_of(r, |b| b.map_or(GotBody::None, GotBody::Text)) }),
                            Expect::Json => b.expect_json::<J>().build().then_send(move |r| HEvent::Got { id, got: got_of(r, |b| b.map_or(GotBody::None, GotBody::Json)) }),
                        }
                    }
                    HApi::Legacy => {
                        let http = http_with_client_mw(&caps.http, id, &s.client_mw);
                        let mut b = if s.post { http.post(&s.url) } else { http.get(&s.url) };
                        b = b.header("x-id", id.to_string().as_str());
                        if let Some(body) = &s.body {
                            b = b.body_bytes(body);
                        }
                        let b = with_mw!(b, id, &s.req_mw);
                        match s.expect {
                            Expect::Bytes => b.send(move |r| HEvent::Got { id, got: got_of(r, |b| b.map_or(GotBody::None, GotBody::Bytes)) }),
                            Expect::Text => b.expect_string().send(move |r| HEvent::Got { id, got: got_of(r, |b| b.map_or(GotBody::None, GotBody::Text)) }),
                            Expect::Json => b.expect_json::<J>().send(move |r| HEvent::Got { id, got: got_of(r, |b| b.map_or(GotBody::None, GotBody::Json)) }),
                        }
                        Command::done()
                    }
                    HApi::LegacyAsync => {
                        let http = http_with_client_mw(&caps.http, id, &s.client_mw);
                        Command::new(move |ctx| async move {
                            let mut b = if s.post { http.post(&s.url) } else { http.get(&s.url) };
                            b = b.header("x-id", id.to_string().as_str());
                            if let Some(body) = &s.body {
                                b = b.body_bytes(body);
                            }
                            let b = with_mw!(b, id, &s.req_mw);
                            let got = match b.send_async().await {
                                Err(e) => got_of::<Vec<u8>>(Err(e), |_| GotBody::None),
                                Ok(mut resp) => {
                                    // the async response hands out status, headers and body as they are
                                    let status = u16::from(resp.status());
                                    let mut headers: Vec<(String, String)> = vec![];
                                    for (name, values) in resp.iter() {
                                        for v in values.iter() {
                                            headers.push((name.as_str().to_string(), v.as_str().to_string()));
                                        }
                                    }
                                    headers.sort();
                                    match resp.body_bytes().await {
                                        Ok(b) => Got::Ok { status, headers, body: GotBody::Bytes(b) },
                                        Err(e) => got_of::<Vec<u8>>(Err(e), |_| GotBody::None),
                                    }
                                }
                            };
                            ctx.send_event(HEvent::Got { id, got });
                        })
                    }
                }
            }
        }
    }

    fn view(&self, model: &HModel) -> Vec<(u32, Got)> {
        model.log.clone()
    }
}

// ------------------------------------------------------------------------------------------------
// shell side

#[derive(Clone, Copy, Debug, PartialEq, Eq, Serialize, Deserialize)]
pub enum HHost {
    Core,
    Bridge,
}

enum HReal {
    Core(Core<HApp>),
    Bridge(Bridge<HApp>),
}

enum HHeld {
    Typed(Request<HttpRequest>),
    Id(u32),
}

struct Pending {
    op: HttpRequest,
    held: HHeld,
}

fn bin() -> impl bincode::Options + Copy {
    crate::cmd::hosts::bincode_opts()
}

/// Shell-side bincode encoding of an `HttpResult`, with the numbering the core's `Deserialize`
/// expects (what generated shell code uses): `#[serde(skip)]` on two `HttpError` variants makes
/// Rust's own `Serialize` use different indices, so the error is written by hand.
fn encode_result(r: &HttpResult) -> Vec<u8> {
    use bincode::Options as _;
    match r {
        HttpResult::Ok(resp) => {
            let mut v = 0u32.to_le_bytes().to_vec();
            v.extend(bin().serialize(resp).unwrap());
            v
        }
        HttpResult::Err(e) => {
            let mut v = 1u32.to_le_bytes().to_vec();
            match e {
                HttpError::Url(s) => {
                    v.extend(0u32.to_le_bytes());
                    v.extend(bin().serialize(s).unwrap());
                }
                HttpError::Io(s) => {
                    v.extend(1u32.to_le_bytes());
                    v.extend(bin().serialize(s).unwrap());
                }
                HttpError::Timeout => v.extend(2u32.to_le_bytes()),
                _ => v.extend(2u32.to_le_bytes()),
            }
            v
        }
    }
}

struct Shell {
    real: HReal,
    pending: Vec<Pending>,
    log_seen: usize,
}

fn viol(id: &str, clause: &str, msg: String) -> Violation {
    Violation::new(format!("{id}:{clause}"), msg)
}

impl Shell {
    fn new(h: HHost) -> Shell {
        Shell {
            real: match h {
                HHost::Core => HReal::Core(Core::new()),
                HHost::Bridge => HReal::Bridge(Bridge::new(Core::new())),
            },
            pending: vec![],
            log_seen: 0,
        }
    }

    fn absorb_typed(&mut self, effs: Vec<Effect>) {
        for e in effs {
            let Effect::Http(req) = e;
            self.pending.push(Pending { op: req.operation.clone(), held: HHeld::Typed(req) });
        }
    }

    fn absorb_bytes(&mut self, bytes: &[u8]) -> Result<(), String> {
        use bincode::Options as _;
        let reqs: Vec<crux_core::bridge::Request<EffectFfi>> = bin().deserialize(bytes).map_err(|e| format!("shell could not decode effects: {e}"))?;
        for r in reqs {
            let EffectFfi::Http(op) = r.effect;
            self.pending.push(Pending { op, held: HHeld::Id(r.id.0) });
        }
        Ok(())
    }

    /// Err((loc,msg)) = the call panicked
    fn send(&mut self, ev: HEvent) -> Result<Result<(), String>, (String, String)> {
        use bincode::Options as _;
        match &self.real {
            HReal::Core(core) => {
                let effs = catch(|| core.process_event(ev))?;
                self.absorb_typed(effs);
                Ok(Ok(()))
            }
            HReal::Bridge(b) => {
                let bytes = bin().serialize(&ev).unwrap();
                let out = catch(|| b.process_event(&bytes))?;
                Ok(match out {
                    Ok(o) => self.absorb_bytes(&o),
                    Err(e) => Err(format!("valid event rejected: {e}")),
                })
            }
        }
    }

    fn answer(&mut self, idx: usize, result: HttpResult) -> Result<Result<(), String>, (String, String)> {
        let p = self.pending.remove(idx);
        match (&self.real, p.held) {
            (HReal::Core(core), HHeld::Typed(mut req)) => {
                let r = catch(|| core.resolve(&mut req, result))?;
                Ok(match r {
                    Ok(effs) => {
                        self.absorb_typed(effs);
                        Ok(())
                    }
                    Err(e) => Err(format!("valid response rejected: {e}")),
                })
            }
            (HReal::Bridge(b), HHeld::Id(id)) => {
                let bytes = encode_result(&result);
                let out = catch(|| b.handle_response(id, &bytes))?;
                Ok(match out {
                    Ok(o) => self.absorb_bytes(&o),
                    Err(e) => Err(format!("valid response rejected: {e}")),
                })
            }
            _ => unreachable!(),
        }
    }

    fn new_log(&mut self) -> Result<Vec<(u32, Got)>, String> {
        use bincode::Options as _;
        let v: Vec<(u32, Got)> = match &self.real {
            HReal::Core(core) => core.view(),
            HReal::Bridge(b) => bin().deserialize(&b.view().map_err(|e| e.to_string())?).map_err(|e| e.to_string())?,
        };
        let nl = v[self.log_seen.min(v.len())..].to_vec();
        self.log_seen = v.len();
        Ok(nl)
    }
}

fn id_of_request(op: &HttpRequest) -> Option<u32> {
    if let Some(h) = op.headers.iter().find(|h| h.name.eq_ignore_ascii_case("x-id")) {
        return h.value.parse().ok();
    }
    op.url.split("id=").nth(1).and_then(|s| s.split('&').next()).and_then(|s| s.parse().ok())
}

// ================================================================================================
// C15
// ================================================================================================

#[derive(Clone, Debug, PartialEq, Eq, Serialize, Deserialize)]
pub enum ResSpec {
    Response { status: u16, headers: Vec<(String, String)>, body: Vec<u8> },
    Error(GotErr),
}

#[derive(Clone, Debug, PartialEq, Eq, Serialize, Deserialize)]
pub enum Act15 {
    Send(SendSpec),
    Answer { id: u32, result: ResSpec },
}

#[derive(Clone, Debug, Serialize, Deserialize)]
pub struct Scn15 {
    pub host: HHost,
    pub actions: Vec<Act15>,
}

pub struct Http15;
pub static C15: Http15 = Http15;

const KNOWN_STATUS: &[u16] = &[
    100, 101, 103, 200, 201, 202, 203, 204, 205, 206, 207, 226, 300, 301, 302, 303, 304, 307, 308, 400, 401, 402, 403, 404, 405, 406, 407, 408,
    409, 410, 411, 412, 413, 414, 415, 416, 417, 418, 421, 422, 423, 424, 425, 426, 428, 429, 431, 451, 500, 501, 502, 503, 504, 505, 506, 507,
    508, 510, 511,
];

fn gen_status(rng: &mut Rng) -> u16 {
    match rng.below(20) {
        0..=9 => *rng.pick(KNOWN_STATUS),
        10..=15 => *rng.pick(&[200, 201, 204, 301, 302, 304, 399, 400, 404, 418, 499, 500, 503]),
        // rare: codes http-types has no variant for (known finding territory)
        16 => *rng.pick(&[99, 199, 299, 444, 520, 599, 600, 0, 1000, 65535]),
        17 => rng.range(100, 599) as u16,
        _ => *rng.pick(KNOWN_STATUS),
    }
}

fn gen_headers(rng: &mut Rng) -> Vec<(String, String)> {
    let n = rng.below(5) as usize;
    let mut v = vec![];
    for _ in 0..n {
        let name = match rng.below(8) {
            0 => "Content-Type".to_string(),
            1 => "content-type".to_string(),
            2 => "X-Custom".to_string(),
            3 => "x-custom".to_string(),
            4 => "Set-Cookie".to_string(),
            5 => "ETag".to_string(),
            6 => format!("x-h{}", rng.below(4)),
            _ => "Cache-Control".to_string(),
        };
        let value = if name.eq_ignore_ascii_case("content-type") {
            rng.pick(&[
                "text/plain",
                "text/plain; charset=utf-8",
                "text/plain; charset=UTF-8",
                "text/html; charset=latin1",
                "text/plain; charset=iso-8859-1",
                "application/json",
                "application/json; charset=utf-8",
                "text/plain; charset=nonsense",
                "garbage",
                "",
                "text/plain; charset=euc-kr",
                "text/plain; charset=iso-2022-jp",
                "text/plain; charset=iso-2022-kr",
                "text/plain; charset=hz-gb-2312",
                "text/html; charset=replacement",
            ])
            .to_string()
        } else {
            match rng.below(7) {
                0 => String::new(),
                1 => "a=b; Path=/".to_string(),
                2 => "x".repeat(rng.range(1, 3000) as usize),
                3 => " padded ".to_string(),
                4 => "W/\"abc\"".to_string(),
                // rare: obs-text / non-ASCII (known finding territory)
                5 if rng.chance(1, 12) => "caf\u{e9}".to_string(),
                _ => format!("v{}", rng.below(100)),
            }
        };
        v.push((name, value));
    }
    if rng.chance(1, 60) {
        v.push(("x-\u{e9}".to_string(), "v".to_string()));
    }
    v
}

fn gen_body(rng: &mut Rng) -> Vec<u8> {
    if rng.chance(1, 8) {
        // framing: a complete JSON document with something before or after it
        let doc: &[u8] = br#"{"a":1,"b":"x"}"#;
        let (pre, post): (&[u8], &[u8]) = match rng.below(8) {
            0 => (b"", br#"{"a":2,"b":"y"}"#),
            1 => (b"", b"]"),
            2 => (b"", b"\n\n  \t"),
            3 => (b"", b"\0"),
            4 => (b"", b"<html>proxy error</html>"),
            5 => (b"  \n", b""),
            6 => (b"\xef\xbb\xbf", b""),
            _ => (b"", b"\n{\"a\":3,\"b\":\"z\"}\n"),
        };
        return [pre, doc, post].concat();
    }
    match rng.below(12) {
        // long bodies of multi-byte text that are not the JSON an app expects (a localised error page, a
        // document of another shape): every byte offset falls inside a character for some of them
        10 => {
            let unit = *rng.pick(&["é", "日本語のエラー", "✓ déjà vu ", "😀"]);
            let mut t = "x".repeat(rng.below(4) as usize);
            while t.len() < rng.range(100, 600) as usize {
                t.push_str(unit);
            }
            t.into_bytes()
        }
        11 => {
            let unit = *rng.pick(&["ü", "語", "€"]);
            let pad = "p".repeat(rng.below(4) as usize);
            format!(r#"{{"{pad}message":"{}","code":7}}"#, unit.repeat(rng.range(40, 200) as usize)).into_bytes()
        }
        0 => vec![],
        1 => b"hello world".to_vec(),
        2 => "héllo wörld ✓".as_bytes().to_vec(),
        3 => vec![0xff, 0xfe, 0x41],
        4 => vec![0xef, 0xbb, 0xbf, b'h', b'i'],
        5 => br#"{"a":1,"b":"x"}"#.to_vec(),
        6 => br#"{"a":"wrong"}"#.to_vec(),
        7 => r#"{"a":7,"b":"é","extra":[1,2]}"#.as_bytes().to_vec(),
        8 => rng.bytes(40),
        // 7-bit bodies that are *not* plain ASCII text in stateful encodings
        9 if rng.chance(1, 2) => {
            let opts: [&[u8]; 4] = [b"plain ascii", b"shift\x0eout\x0fin", b"\x1b$B$3$s$K$A$O\x1b(B", b"\x1b(Jyen\x1b(B"];
            opts[rng.usize_below(4)].to_vec()
        }
        _ => {
            let n = rng.range(1000, 100_000) as usize;
            vec![b'z'; n]
        }
    }
}

fn windows_1252(b: u8) -> char {
    const HI: [u16; 32] = [
        0x20AC, 0x81, 0x201A, 0x0192, 0x201E, 0x2026, 0x2020, 0x2021, 0x02C6, 0x2030, 0x0160, 0x2039, 0x0152, 0x8D, 0x017D, 0x8F, 0x90, 0x2018,
        0x2019, 0x201C, 0x201D, 0x2022, 0x2013, 0x2014, 0x02DC, 0x2122, 0x0161, 0x203A, 0x0153, 0x9D, 0x017E, 0x0178,
    ];
    match b {
        0x80..=0x9f => char::from_u32(u32::from(HI[(b - 0x80) as usize])).unwrap(),
        _ => char::from(b),
    }
}

/// the charset parameter of the *last* content-type header, if that header parses as a mime type
fn charset_of(headers: &[(String, String)]) -> Option<Option<String>> {
    let ct = headers.iter().filter(|h| h.0.eq_ignore_ascii_case("content-type")).last()?;
    let v = ct.1.trim();
    let mut parts = v.split(';');
    let essence = parts.next()?.trim();
    if !essence.contains('/') || essence.contains(' ') {
        return Some(None); // unparsable mime: no claimed charset
    }
    for p in parts {
        let p = p.trim();
        if let Some(cs) = p.strip_prefix("charset=").or_else(|| p.strip_prefix("CHARSET=")) {
            return Some(Some(cs.trim_matches('"').to_string()));
        }
    }
    Some(None)
}

/// Reference text decoding: Some(Ok(s)) = must be exactly s; Some(Err) = must be an error;
/// None = not pinned down by this reference (exotic charsets): any single outcome without panic
fn reference_text(headers: &[(String, String)], body: &[u8]) -> Option<Result<Vec<String>, ()>> {
    let cs = charset_of(headers).flatten().unwrap_or_else(|| "utf-8".to_string()).to_ascii_lowercase();
    // A byte order mark takes precedence over the label in the WHATWG decode algorithm; a decoder
    // that ignores it is conforming in the HTTP sense too. Bodies starting with a UTF-16 BOM are
    // therefore not pinned down; a UTF-8 BOM under another label may be honoured or not.
    if body.starts_with(&[0xff, 0xfe]) || body.starts_with(&[0xfe, 0xff]) {
        return None;
    }
    if cs != "utf-8" && cs != "utf8" && body.starts_with(&[0xef, 0xbb, 0xbf]) {
        return None;
    }
    match cs.as_str() {
        "utf-8" | "utf8" => Some(match std::str::from_utf8(body) {
            Ok(s) => {
                // BOM handling accepted either way
                let mut alts = vec![s.to_string()];
                if let Some(t) = s.strip_prefix('\u{feff}') {
                    alts.push(t.to_string());
                }
                Ok(alts)
            }
            Err(_) => Err(()),
        }),
        "latin1" | "iso-8859-1" | "windows-1252" => Some(Ok(vec![body.iter().map(|b| windows_1252(*b)).collect()])),
        // the WHATWG "replacement" encoding: any non-empty body is an error
        "replacement" | "iso-2022-kr" | "iso-2022-cn" | "iso-2022-cn-ext" | "hz-gb-2312" | "csiso2022kr" => {
            Some(if body.is_empty() { Ok(vec![String::new()]) } else { Err(()) })
        }
        // ISO-2022-JP is stateful and 7-bit: shift-out / shift-in are errors, escape sequences switch
        // character sets (not decoded by this reference), everything else in ASCII state is itself
        "iso-2022-jp" | "csiso2022jp" => {
            if body.iter().any(|b| *b == 0x0e || *b == 0x0f) {
                Some(Err(()))
            } else if !body.is_ascii() {
                Some(Err(()))
            } else if body.contains(&0x1b) {
                // must at least not come back as the raw bytes (an error is fine too)
                Some(Ok(vec![]))
            } else {
                Some(Ok(vec![String::from_utf8_lossy(body).to_string()]))
            }
        }
        _ => None,
    }
}

fn lower_headers(h: &[(String, String)]) -> Vec<(String, String)> {
    let mut v: Vec<(String, String)> = h.iter().map(|(n, v)| (n.to_ascii_lowercase(), v.clone())).collect();
    v.sort();
    v
}

/// does `got` classify `result` as the statement demands?
fn judge(spec: &SendSpec, result: &ResSpec, got: &Got) -> Result<(), (String, String)> {
    match result {
        ResSpec::Error(e) => {
            if *got != Got::Err(e.clone()) {
                return Err(("shell_error_altered".into(), format!("the shell reported {e:?}, the app received {got:?}")));
            }
        }
        ResSpec::Response { status, headers, body } => {
            if !(100..=599).contains(status) {
                return Ok(()); // outside the classes the statement speaks about: any single outcome
            }
            if spec.api == HApi::LegacyAsync {
                // the async style hands the raw response to the caller: status, headers, bytes as they are
                let Got::Ok { status: gs, body: gb, .. } = got else {
                    return Err(("raw_response_lost".into(), format!("status {status}: the app received {}", short(got))));
                };
                if gs != status || *gb != GotBody::Bytes(body.clone()) {
                    return Err(("raw_response_altered".into(), format!("status {status}, {} body bytes: the app received {}", body.len(), short(got))));
                }
                return Ok(());
            }
            if *status >= 400 {
                let want = Got::Err(GotErr::Http { code: *status, body: Some(body.clone()) });
                if *got != want {
                    return Err(("error_status_misclassified".into(), format!("status {status}: the app received {}", short(got))));
                }
                return Ok(());
            }
            let Got::Ok { status: gs, headers: gh, body: gb } = got else {
                // a success response may only turn into an error through its body expectation
                let body_err_ok = match spec.expect {
                    Expect::Bytes => false,
                    Expect::Text => !matches!(reference_text(headers, body), Some(Ok(alts)) if !alts.is_empty()),
                    Expect::Json => serde_json::from_slice::<J>(body).is_err(),
                };
                if body_err_ok && spec.api != HApi::LegacyAsync {
                    return Ok(());
                }
                return Err(("success_status_misclassified".into(), format!("status {status}: the app received {}", short(got))));
            };
            if gs != status {
                return Err(("status_altered".into(), format!("sent {status}, received {gs}")));
            }
            // every header value sent must arrive (names case-insensitive, multiplicity kept); the only
            // addition tolerated is the default content-type http-types attaches to a byte body
            let mut rest = gh.clone();
            for h in lower_headers(headers) {
                match rest.iter().position(|g| *g == h) {
                    Some(p) => {
                        rest.remove(p);
                    }
                    None => return Err(("headers_altered".into(), format!("header {h:?} was sent but the app received {gh:?}"))),
                }
            }
            rest.retain(|g| *g != ("content-type".to_string(), "application/octet-stream".to_string()));
            if !rest.is_empty() {
                return Err(("headers_altered".into(), format!("the app received headers nobody sent: {rest:?}")));
            }
            let expect = if spec.api == HApi::LegacyAsync { Expect::Bytes } else { spec.expect };
            match expect {
                Expect::Bytes => {
                    if *gb != GotBody::Bytes(body.clone()) {
                        return Err(("body_altered".into(), format!("{} body bytes sent, received {}", body.len(), short_body(gb))));
                    }
                }
                Expect::Text => match reference_text(headers, body) {
                    Some(Ok(alts)) if alts.is_empty() => {
                        if *gb == GotBody::Text(String::from_utf8_lossy(body).to_string()) {
                            return Err(("text_decoded_wrongly".into(), "a body with escape sequences of a stateful charset came back undecoded".into()));
                        }
                    }
                    Some(Ok(alts)) => {
                        if !alts.iter().any(|a| *gb == GotBody::Text(a.clone())) {
                            return Err(("text_decoded_wrongly".into(), format!("a conforming decoder yields {:?}, received {}", alts.first().map(|s| s.chars().take(40).collect::<String>()), short_body(gb))));
                        }
                    }
                    Some(Err(())) => {
                        return Err(("invalid_text_accepted".into(), format!("the body is not valid in its charset, yet the app received {}", short_body(gb))));
                    }
                    None => {}
                },
                Expect::Json => match serde_json::from_slice::<J>(body) {
                    Ok(j) => {
                        if *gb != GotBody::Json(j) {
                            return Err(("json_decoded_wrongly".into(), format!("received {}", short_body(gb))));
                        }
                    }
                    Err(_) => return Err(("invalid_json_accepted".into(), format!("received {}", short_body(gb)))),
                },
            }
        }
    }
    Ok(())
}

fn short(g: &Got) -> String {
    let s = format!("{g:?}");
    s.chars().take(240).collect()
}
fn short_body(g: &GotBody) -> String {
    let s = format!("{g:?}");
    s.chars().take(120).collect()
}

fn to_result(r: &ResSpec) -> HttpResult {
    match r {
        ResSpec::Response { status, headers, body } => HttpResult::Ok(HttpResponse {
            status: *status,
            headers: headers.iter().map(|(n, v)| HttpHeader { name: n.clone(), value: v.clone() }).collect(),
            body: body.clone(),
        }),
        ResSpec::Error(e) => HttpResult::Err(match e {
            GotErr::Url(s) => HttpError::Url(s.clone()),
            GotErr::Io(s) => HttpError::Io(s.clone()),
            _ => HttpError::Timeout,
        }),
    }
}

impl Check for Http15 {
    type Scn = Scn15;
    fn id(&self) -> &'static str {
        "C15"
    }
    fn rule(&self) -> String {
        "1-6 HTTP requests per history through the command API, the legacy capability (event style) and its async style, each with a body expectation (bytes, string, JSON); the simulated server answers them in any order with generated results: status over the known codes, class edges and (rarely) codes outside every class, header lists (repeated names, mixed case, empty/long values, content types with utf-8/latin1/unknown/malformed charsets, rarely non-ASCII), bodies (empty, valid/invalid UTF-8, BOM, valid/invalid JSON, large), every shell error variant; a run is non-trivial when >= 2 requests were outstanding at once and were answered out of order; distinct = distinct hash of (host, api/expectation per request, status class, header names, body kind, answer order)".to_string()
    }
    fn assumptions(&self) -> Vec<String> {
        vec![
            "reference classification written from the statement: 100-399 success with the same numeric status, every header value (names compared case-insensitively) and the body per expectation; 400-599 HTTP error with status and body; shell errors unchanged; statuses outside 100..=599: any single outcome".into(),
            "text decoding is pinned down for utf-8 (strict, BOM kept or stripped) and latin1/windows-1252; other charsets only require a single outcome without panic; JSON acceptance is judged with serde_json as the conforming decoder".into(),
            "over the bridge, shell-side encoding of HttpError uses the numbering the core's Deserialize expects".into(),
        ]
    }
    fn components(&self) -> Value {
        json!({"real": ["crux_http (command API, legacy capability, client, response conversion, expectations, decode)", "http-types, encoding_rs", "crux_core Core / Bridge"], "stub": ["app that records every outcome"], "simulated": ["HTTP server behind the shell returning generated results out of order"]})
    }
    fn runs(&self, tier: Tier) -> u64 {
        match tier {
            Tier::Quick => 60_000,
            Tier::Thorough => 1_500_000,
        }
    }

    fn generate(&self, rng: &mut Rng, tier: Tier) -> Scn15 {
        let host = *rng.pick(&[HHost::Core, HHost::Core, HHost::Bridge]);
        let n = rng.range(1, if tier == Tier::Thorough { 6 } else { 4 }) as u32;
        let mut actions = vec![];
        let mut open: Vec<u32> = vec![];
        let mut next = 0u32;
        for _ in 0..(n * 3) {
            if next < n && (open.is_empty() || rng.chance(1, 2)) {
                next += 1;
                open.push(next);
                actions.push(Act15::Send(SendSpec {
                    id: next,
                    api: *rng.pick(&[HApi::Command, HApi::Legacy, HApi::LegacyAsync]),
                    post: rng.chance(1, 3),
                    url: format!("https://sim.test/r/{next}"),
                    body: if rng.chance(1, 3) { Some(gen_body(rng)) } else { None },
                    expect: *rng.pick(&[Expect::Bytes, Expect::Text, Expect::Json]),
                    client_mw: vec![],
                    req_mw: vec![],
                }));
            } else if !open.is_empty() {
                let i = rng.usize_below(open.len());
                let id = open.remove(i);
                let result = if rng.chance(1, 7) {
                    ResSpec::Error(match rng.below(4) {
                        0 => GotErr::Url("relative URL without a base".into()),
                        1 => GotErr::Io("connection reset \u{1F4A5}".into()),
                        2 => GotErr::Io(String::new()),
                        _ => GotErr::Timeout,
                    })
                } else {
                    ResSpec::Response { status: gen_status(rng), headers: gen_headers(rng), body: gen_body(rng) }
                };
                actions.push(Act15::Answer { id, result });
            }
        }
        Scn15 { host, actions }
    }

    fn execute(&self, s: &Scn15, cov: &mut Cov) -> Result<RunInfo, Violation> {
        let mut shell = Shell::new(s.host);
        let mut specs: BTreeMap<u32, SendSpec> = BTreeMap::new();
        let mut answered: BTreeMap<u32, ResSpec> = BTreeMap::new();
        let mut outcomes: BTreeMap<u32, u32> = BTreeMap::new();
        let mut shape = fnv(format!("{:?}", s.host).as_bytes());
        let mut max_open = 0;
        let mut ooo = false;
        let mut last_answered = 0;
        for (si, act) in s.actions.iter().enumerate() {
            cov.bump("sim_steps");
            match act {
                Act15::Send(spec) => {
                    shape = mix(shape, fnv(format!("{:?}{:?}{}", spec.api, spec.expect, spec.post).as_bytes()));
                    cov.bump(&format!("api:{:?}", spec.api));
                    specs.insert(spec.id, spec.clone());
                    match shell.send(HEvent::Send(spec.clone())) {
                        Ok(Ok(())) => {}
                        Ok(Err(e)) => return Err(viol("C15", "shell_error", format!("step {si}: {e}"))),
                        Err((loc, msg)) => return Err(viol("C15", &format!("panic:{loc}"), format!("step {si}: sending request {}: {msg}", spec.id))),
                    }
                    max_open = max_open.max(shell.pending.len());
                }
                Act15::Answer { id, result } => {
                    let Some(idx) = shell.pending.iter().position(|p| id_of_request(&p.op) == Some(*id)) else { continue };
                    if *id < last_answered {
                        ooo = true;
                        cov.bump("fault:out_of_order_answer");
                    }
                    last_answered = last_answered.max(*id);
                    match result {
                        ResSpec::Error(_) => cov.bump("fault:shell_error"),
                        ResSpec::Response { status, headers, body } => {
                            cov.bump(&format!("status_class:{}", if (100..=599).contains(status) { (status / 100).to_string() + "xx" } else { "outside".into() }));
                            shape = mix(shape, mix(u64::from(*status / 100), mix(headers.len() as u64, body.len().min(50) as u64)));
                            for (n, v) in headers {
                                shape = mix(shape, fnv(n.to_ascii_lowercase().as_bytes()));
                                if !v.is_ascii() || !n.is_ascii() {
                                    cov.bump("fault:non_ascii_header");
                                }
                            }
                        }
                    }
                    answered.insert(*id, result.clone());
                    match shell.answer(idx, to_result(result)) {
                        Ok(Ok(())) => {}
                        Ok(Err(e)) => return Err(viol("C15", "shell_error", format!("step {si}: {e}"))),
                        Err((loc, msg)) => {
                            let what = match result {
                                ResSpec::Response { status, headers, .. } => format!("status {status}, headers {:?}", headers.iter().map(|h| h.0.clone()).collect::<Vec<_>>()),
                                ResSpec::Error(e) => format!("{e:?}"),
                            };
                            cov.tolerate(viol("C15", &format!("panic:{loc}"), format!("step {si}: the core panicked on a response ({what}): {msg}")))?;
                            // the run cannot go on: the panic unwound through the core
                            return Ok(RunInfo { shape, nontrivial: false, discarded: false });
                        }
                    }
                }
            }
            let nl = shell.new_log().map_err(|e| viol("C15", "view", e))?;
            for (id, got) in nl {
                let c = outcomes.entry(id).or_insert(0);
                *c += 1;
                if *c > 1 {
                    return Err(viol("C15", "second_outcome", format!("step {si}: request {id} produced a second outcome")));
                }
                let (Some(spec), Some(result)) = (specs.get(&id), answered.get(&id)) else {
                    return Err(viol("C15", "outcome_without_result", format!("step {si}: request {id} produced an outcome before the shell returned a result: {}", short(&got))));
                };
                if let Err((clause, msg)) = judge(spec, result, &got) {
                    return Err(viol("C15", &clause, format!("step {si}, request {id} ({:?}, expect {:?}) on {:?}: {msg}", spec.api, spec.expect, s.host)));
                }
            }
            // every answered request has its outcome by now
            for id in answered.keys() {
                if !outcomes.contains_key(id) {
                    return Err(viol("C15", "outcome_missing", format!("step {si}: request {id} was answered but produced no outcome")));
                }
            }
            cov.trace(&format!("{}", outcomes.len()));
        }
        Ok(RunInfo { shape, nontrivial: max_open >= 2 && ooo, discarded: false })
    }

    fn shrink(&self, s: &Scn15) -> Vec<Scn15> {
        let mut out = vec![];
        for i in (0..s.actions.len()).rev() {
            let mut a = s.actions.clone();
            a.remove(i);
            out.push(Scn15 { actions: a, ..s.clone() });
        }
        for i in 0..s.actions.len() {
            if let Act15::Answer { id, result: ResSpec::Response { status, headers, body } } = &s.actions[i] {
                for k in 0..headers.len() {
                    let mut h = headers.clone();
                    h.remove(k);
                    let mut a = s.actions.clone();
                    a[i] = Act15::Answer { id: *id, result: ResSpec::Response { status: *status, headers: h, body: body.clone() } };
                    out.push(Scn15 { actions: a, ..s.clone() });
                }
                if !body.is_empty() {
                    let mut a = s.actions.clone();
                    a[i] = Act15::Answer { id: *id, result: ResSpec::Response { status: *status, headers: headers.clone(), body: vec![] } };
                    out.push(Scn15 { actions: a, ..s.clone() });
                }
            }
        }
        out
    }
}

// ================================================================================================
// C16
// ================================================================================================

#[derive(Clone, Debug, PartialEq, Eq, Serialize, Deserialize)]
pub enum Loc {
    /// absolute URL of node k
    Abs(u8),
    /// "/p<k>"
    RootRel(u8),
    /// "p<k>" (relative to the current directory)
    Rel(u8),
    /// "../p<k>"
    UpRel(u8),
    /// "?q=<k>"
    Query(u8),
    /// root-relative or relative reference that carries an absolute URL in its query (login redirects)
    RootRelEmbedding(u8),
    RelEmbedding(u8),
    Missing,
    Empty,
    /// not a URL at all
    Invalid,
}

#[derive(Clone, Debug, PartialEq, Eq, Serialize, Deserialize)]
pub enum Node {
    Final { status: u16 },
    Redirect { status: u16, loc: Loc },
}

#[derive(Clone, Debug, Serialize, Deserialize)]
pub struct Scn16 {
    pub host: HHost,
    /// node k lives at https://sim.test/d<k%3>/p<k>
    pub graph: Vec<Node>,
    pub sends: Vec<SendSpec>,
    /// order in which outstanding requests are answered: index into the pending list modulo its length
    pub order: Vec<u8>,
}

pub struct Http16;
pub static C16: Http16 = Http16;

fn node_url(k: u8) -> String {
    format!("https://sim.test/d{}/p{}", k % 3, k)
}

fn node_of_url(url: &str) -> Option<u8> {
    let u = url::Url::parse(url).ok()?;
    let last = u.path_segments()?.last()?.to_string();
    last.strip_prefix('p').and_then(|s| s.parse().ok())
}

fn location_value(loc: &Loc) -> Option<String> {
    Some(match loc {
        Loc::Abs(k) => node_url(*k),
        Loc::RootRel(k) => format!("/d{}/p{}", k % 3, k),
        Loc::Rel(k) => format!("p{k}"),
        Loc::UpRel(k) => format!("../d{}/p{}", k % 3, k),
        Loc::Query(k) => format!("?q={k}"),
        Loc::RootRelEmbedding(k) => format!("/d{}/p{}?return_to=https://other.test/home", k % 3, k),
        Loc::RelEmbedding(k) => format!("p{k}?next=http://a.test/b"),
        Loc::Missing => return None,
        Loc::Empty => String::new(),
        Loc::Invalid => "http://[not a url".to_string(),
    })
}

/// the server: answers by looking the URL up in the graph
fn serve(graph: &[Node], op: &HttpRequest) -> HttpResponse {
    if op.url.contains("/extra/") {
        return HttpResponse { status: 200, headers: vec![], body: b"extra".to_vec() };
    }
    let node = node_of_url(&op.url).and_then(|k| graph.get(k as usize));
    match node {
        None => HttpResponse { status: 404, headers: vec![], body: b"no such node".to_vec() },
        Some(Node::Final { status }) => HttpResponse {
            status: *status,
            headers: vec![HttpHeader { name: "x-served".into(), value: op.url.clone() }],
            body: format!("final {} body_len={}", op.url, op.body.len()).into_bytes(),
        },
        Some(Node::Redirect { status, loc }) => {
            let mut headers = vec![];
            if let Some(l) = location_value(loc) {
                headers.push(HttpHeader { name: "Location".into(), value: l });
            }
            HttpResponse { status: *status, headers, body: vec![] }
        }
    }
}

const REDIRECT_STATUSES: &[u16] = &[301, 302, 303, 307, 308];

#[derive(Clone, Debug, PartialEq, Eq)]
struct Seen {
    url: String,
    post: bool,
    body_len: usize,
}

#[derive(Clone, Debug)]
struct RefEval {
    marks: Vec<String>,
    seen: Vec<Seen>,
    /// where the statement is silent (redirect status with missing/empty/unparsable Location) only
    /// the bound, the absence of panics and the nesting are asserted
    loose: bool,
    /// the chain ended in an error produced by the redirect middleware itself
    error: bool,
}

/// Reference evaluator of a middleware stack over the server graph, written from the statement.
/// Returns the status of the response that reaches the caller (None if an error does).
fn eval(stack: &[Mw], graph: &[Node], url: &str, post: bool, body_len: usize, id: u32, r: &mut RefEval) -> Option<u16> {
    let Some((first, rest)) = stack.split_first() else {
        // the shell is reached exactly once per invocation of the rest of the chain
        r.seen.push(Seen { url: url.to_string(), post, body_len });
        let op = HttpRequest { method: String::new(), url: url.to_string(), headers: vec![], body: vec![0; body_len] };
        return Some(serve(graph, &op).status);
    };
    match first {
        Mw::Marker(k) => {
            r.marks.push(format!("enter {k}"));
            let s = eval(rest, graph, url, post, body_len, id, r);
            r.marks.push(format!("exit {k}"));
            s
        }
        Mw::ShortCircuit(s) => {
            r.marks.push(format!("short {s}"));
            Some(*s)
        }
        Mw::Resend(k) => {
            r.marks.push(format!("resend {k}"));
            r.seen.push(Seen { url: url.to_string(), post, body_len });
            let op = HttpRequest { method: String::new(), url: url.to_string(), headers: vec![], body: vec![0; body_len] };
            Some(serve(graph, &op).status)
        }
        Mw::Issuer(t) => {
            r.marks.push(format!("issue {t}"));
            r.seen.push(Seen { url: format!("https://sim.test/extra/{t}?id={id}"), post: false, body_len: 0 });
            let s = eval(rest, graph, url, post, body_len, id, r);
            r.marks.push(format!("issued {t}"));
            s
        }
        Mw::IssuerMarked(t, k) => {
            r.marks.push(format!("issue {t}"));
            // the nested request goes through its own per-request middleware, then to the shell
            r.marks.push(format!("enter {k}"));
            r.seen.push(Seen { url: format!("https://sim.test/extra/{t}?id={id}"), post: false, body_len: 0 });
            r.marks.push(format!("exit {k}"));
            let s = eval(rest, graph, url, post, body_len, id, r);
            r.marks.push(format!("issued {t}"));
            s
        }
        Mw::Redirect(n) => {
            // follow at most n redirects with body-less probes, resolving relative locations
            // against the *current* URL; stop at the first non-redirect; then send the original
            // request, with its body, to the final URL
            let mut current = url::Url::parse(url).ok()?;
            for _ in 0..*n {
                r.seen.push(Seen { url: current.to_string(), post, body_len: 0 });
                let op = HttpRequest { method: String::new(), url: current.to_string(), headers: vec![], body: vec![] };
                let resp = serve(graph, &op);
                if !REDIRECT_STATUSES.contains(&resp.status) {
                    break;
                }
                match resp.headers.iter().find(|h| h.name.eq_ignore_ascii_case("location")) {
                    None => r.loose = true,
                    Some(h) if h.value.is_empty() => r.loose = true,
                    Some(h) => match current.join(&h.value) {
                        Ok(u) => current = u,
                        Err(_) => {
                            // an unparsable Location may end in an error outcome
                            r.loose = true;
                            r.error = true;
                            return None;
                        }
                    },
                }
            }
            eval(rest, graph, current.as_str(), post, body_len, id, r)
        }
    }
}

impl Check for Http16 {
    type Scn = Scn16;
    fn id(&self) -> &'static str {
        "C16"
    }
    fn rule(&self) -> String {
        "1-3 requests per history, each with a middleware stack of length 0-5 mixing pass-through markers, short-circuiting middleware, middleware issuing its own request through the client, and Redirect::new(n) for n in 0..=6, attached per request (public API) and to the client (verif hook), through the command API, the legacy capability and its async style, GET and POST with bodies; the simulated server holds a redirect graph over <= 8 nodes (absolute, root-relative, relative, ../ and query-only locations, cycles, chains longer than the limit, missing/empty/unparsable Location, every redirect status plus 300/304 decoys) and answers outstanding requests in PRNG order; a run is non-trivial when some stack had >= 2 layers or a Redirect layer followed >= 1 redirect; distinct = distinct hash of (host, apis, stacks, graph, answer order)".to_string()
    }
    fn assumptions(&self) -> Vec<String> {
        vec![
            "reference evaluator written from the statement: client middleware, then per-request middleware, then the shell, reached exactly once per next.run; Redirect follows <= n redirects with body-less probes, relative locations resolved against the current URL, stops at the first non-redirect, then sends the original request with its body to the final URL".into(),
            "redirect statuses are the five the middleware documents (301, 302, 303, 307, 308); where the statement is silent (redirect status with missing, empty or unparsable Location) only the round-trip bound, the nesting of marks and the absence of panics are asserted".into(),
        ]
    }
    fn components(&self) -> Value {
        json!({"real": ["crux_http client, middleware chain (Next), Redirect, request builders of both APIs", "http-types, url", "crux_core Core / Bridge"], "stub": ["app; marker / short-circuit / issuer middleware written for the test"], "simulated": ["HTTP server with a redirect graph behind the shell"]})
    }
    fn runs(&self, tier: Tier) -> u64 {
        match tier {
            Tier::Quick => 40_000,
            Tier::Thorough => 1_000_000,
        }
    }

    fn generate(&self, rng: &mut Rng, _tier: Tier) -> Scn16 {
        let host = *rng.pick(&[HHost::Core, HHost::Core, HHost::Bridge]);
        let nn = rng.range(2, 8) as u8;
        let mut graph = vec![];
        for _ in 0..nn {
            let node = if rng.chance(2, 5) {
                Node::Final { status: *rng.pick(&[200, 200, 201, 204, 304, 300, 404, 500]) }
            } else {
                let status = if rng.chance(1, 8) { *rng.pick(&[300, 304]) } else { *rng.pick(REDIRECT_STATUSES) };
                let k = rng.below(u64::from(nn)) as u8;
                let loc = match rng.below(16) {
                    0..=3 => Loc::Abs(k),
                    4 | 5 => Loc::RootRel(k),
                    6..=8 => Loc::Rel(k),
                    9 => Loc::UpRel(k),
                    10 => Loc::Query(k),
                    11 => Loc::Missing,
                    12 => Loc::Empty,
                    13 => Loc::Invalid,
                    14 => Loc::RootRelEmbedding(k),
                    _ => Loc::RelEmbedding(k),
                };
                Node::Redirect { status, loc }
            };
            graph.push(node);
        }
        let ns = rng.range(1, 3) as u32;
        let mut sends = vec![];
        let gen_stack = |rng: &mut Rng, max: u64| -> Vec<Mw> {
            let n = rng.range(0, max) as usize;
            (0..n)
                .map(|_| match rng.below(10) {
                    0..=3 => Mw::Marker(rng.below(9) as u8),
                    4 => Mw::ShortCircuit(*rng.pick(&[200, 404, 302])),
                    5 => Mw::Issuer(rng.below(9) as u8),
                    6 => Mw::IssuerMarked(rng.below(9) as u8, 10 + rng.below(9) as u8),
                    7 if rng.chance(1, 2) => Mw::Resend(rng.below(9) as u8),
                    _ => Mw::Redirect(rng.range(0, 6) as u8),
                })
                .collect()
        };
        for id in 1..=ns {
            let api = *rng.pick(&[HApi::Legacy, HApi::Legacy, HApi::LegacyAsync, HApi::Command]);
            let post = rng.chance(1, 2);
            let client_mw = if api == HApi::Command { vec![] } else { gen_stack(rng, 2) };
            let req_mw = gen_stack(rng, 3);
            sends.push(SendSpec {
                id,
                api,
                post,
                url: node_url(rng.below(u64::from(nn)) as u8),
                body: if post {
                    let n = rng.below(20) as usize + 1;
                    Some(rng.bytes(n))
                } else {
                    None
                },
                expect: Expect::Bytes,
                client_mw,
                req_mw,
            });
        }
        let order = (0..40).map(|_| rng.below(250) as u8).collect();
        Scn16 { host, graph, sends, order }
    }

    fn execute(&self, s: &Scn16, cov: &mut Cov) -> Result<RunInfo, Violation> {
        MARKS.lock().unwrap().clear();
        let mut shell = Shell::new(s.host);
        let mut seen: BTreeMap<u32, Vec<Seen>> = BTreeMap::new();
        let mut shape = fnv(format!("{:?}{:?}", s.host, s.graph).as_bytes());
        let mut nontrivial = false;
        for spec in &s.sends {
            shape = mix(shape, fnv(format!("{:?}{:?}{:?}", spec.api, spec.client_mw, spec.req_mw).as_bytes()));
            cov.bump(&format!("api:{:?}", spec.api));
            match shell.send(HEvent::Send(spec.clone())) {
                Ok(Ok(())) => {}
                Ok(Err(e)) => return Err(viol("C16", "shell_error", e)),
                Err((loc, msg)) => return Err(viol("C16", &format!("panic:{loc}"), format!("sending request {}: {msg}", spec.id))),
            }
        }
        let mut round = 0usize;
        let mut trips = 0u32;
        while !shell.pending.is_empty() {
            if round > 200 {
                return Err(viol("C16", "unbounded_round_trips", "more than 200 shell round trips for <= 3 requests".into()));
            }
            let pick = s.order.get(round % s.order.len().max(1)).copied().unwrap_or(0) as usize % shell.pending.len();
            round += 1;
            trips += 1;
            shape = mix(shape, pick as u64);
            let op = shell.pending[pick].op.clone();
            let Some(id) = id_of_request(&op) else {
                return Err(viol("C16", "unattributable_request", format!("the server saw a request it cannot attribute: {op:?}")));
            };
            seen.entry(id).or_default().push(Seen { url: op.url.clone(), post: op.method == "POST", body_len: op.body.len() });
            let resp = serve(&s.graph, &op);
            cov.bump("sim_steps");
            match shell.answer(pick, HttpResult::Ok(resp)) {
                Ok(Ok(())) => {}
                Ok(Err(e)) => return Err(viol("C16", "shell_error", e)),
                Err((loc, msg)) => return Err(viol("C16", &format!("panic:{loc}"), format!("answering {}: {msg}", op.url))),
            }
        }
        cov.add("shell_round_trips", u64::from(trips));
        let log = shell.new_log().map_err(|e| viol("C16", "view", e))?;
        let marks = MARKS.lock().unwrap().clone();
        for spec in &s.sends {
            let mut r = RefEval { marks: vec![], seen: vec![], loose: false, error: false };
            let mut stack = spec.client_mw.clone();
            stack.extend(spec.req_mw.clone());
            let body_len = spec.body.as_ref().map_or(0, Vec::len);
            let final_status = eval(&stack, &s.graph, &spec.url, spec.post, body_len, spec.id, &mut r);
            let real_marks: Vec<String> = marks.iter().filter(|m| m.0 == spec.id).map(|m| m.1.clone()).collect();
            let real_seen = seen.get(&spec.id).cloned().unwrap_or_default();
            let followed = r.seen.len() > 1 && stack.iter().any(|m| matches!(m, Mw::Redirect(_)));
            if stack.len() >= 2 || followed {
                nontrivial = true;
            }
            if followed {
                cov.bump("probe:redirect_followed");
            }
            if r.loose {
                cov.bump("probe:location_missing_or_invalid");
            }
            let ctx = format!("request {} via {:?}, stack {:?}, start {}", spec.id, spec.api, stack, spec.url);
            // the bound holds even where the statement is silent
            let bound: usize = stack.iter().map(|m| match m { Mw::Redirect(n) => *n as usize + 1, Mw::Issuer(_) | Mw::IssuerMarked(..) | Mw::Resend(_) => 1, _ => 0 }).sum::<usize>() + 1;
            if real_seen.len() > bound {
                return Err(viol("C16", "round_trip_bound", format!("{ctx}: {} shell round trips, at most {bound} allowed", real_seen.len())));
            }
            if spec.api == HApi::Command && !spec.req_mw.is_empty() && real_marks.is_empty() && real_seen.len() == 1 && (real_marks != r.marks || real_seen != r.seen) {
                cov.tolerate(viol("C16", "command_api_ignores_request_middleware", format!("{ctx}: the request went straight to the shell, none of its middleware ran")))?;
                continue;
            }
            if real_marks != r.marks {
                return Err(viol("C16", "middleware_order", format!("{ctx}: middleware marks {real_marks:?}, reference {:?}", r.marks)));
            }
            if !r.loose && real_seen != r.seen {
                let clause = if real_seen.iter().map(|x| &x.url).ne(r.seen.iter().map(|x| &x.url)) { "redirect_sequence" } else { "request_shape" };
                return Err(viol("C16", clause, format!("{ctx}: the server saw {real_seen:?}, reference {:?}", r.seen)));
            }
            // exactly one outcome, the final response
            let outs: Vec<&(u32, Got)> = log.iter().filter(|l| l.0 == spec.id).collect();
            if outs.len() != 1 {
                return Err(viol("C16", "outcome_count", format!("{ctx}: {} outcomes", outs.len())));
            }
            if !r.loose {
                let got_status = match &outs[0].1 {
                    Got::Ok { status, .. } => Some(*status),
                    Got::Err(GotErr::Http { code, .. }) => Some(*code),
                    Got::Err(_) => None,
                };
                if got_status != final_status {
                    return Err(viol("C16", "final_response", format!("{ctx}: outcome status {got_status:?}, reference {final_status:?}")));
                }
            }
        }
        cov.trace(&format!("{marks:?}{seen:?}"));
        Ok(RunInfo { shape, nontrivial, discarded: false })
    }

    fn shrink(&self, s: &Scn16) -> Vec<Scn16> {
        let mut out = vec![];
        for i in 0..s.sends.len() {
            if s.sends.len() > 1 {
                let mut v = s.sends.clone();
                v.remove(i);
                out.push(Scn16 { sends: v, ..s.clone() });
            }
            for k in 0..s.sends[i].client_mw.len() {
                let mut v = s.sends.clone();
                v[i].client_mw.remove(k);
                out.push(Scn16 { sends: v, ..s.clone() });
            }
            for k in 0..s.sends[i].req_mw.len() {
                let mut v = s.sends.clone();
                v[i].req_mw.remove(k);
                out.push(Scn16 { sends: v, ..s.clone() });
            }
            if s.sends[i].post {
                let mut v = s.sends.clone();
                v[i].post = false;
                v[i].body = None;
                out.push(Scn16 { sends: v, ..s.clone() });
            }
        }
        for i in 0..s.graph.len() {
            if !matches!(s.graph[i], Node::Final { status: 200 }) {
                let mut g = s.graph.clone();
                g[i] = Node::Final { status: 200 };
                out.push(Scn16 { graph: g, ..s.clone() });
            }
        }
        out
    }
}
