//! C17: key-value pass-through. A simulated store behind the shell answers in any order and
//! with injected errors; what the app receives must be exactly what the store answered for
//! that operation, and the operation the shell sees exactly what the app asked.

use std::collections::BTreeMap;

use crux_core::bridge::{Bridge, BridgeWithSerializer};
use crux_core::{Command, Core, Request};
use crux_kv::error::KeyValueError;
use crux_kv::value::Value as KvValue;
use crux_kv::{KeyValueOperation, KeyValueResponse, KeyValueResult};
use serde::{Deserialize, Serialize};
use serde_json::{json, Value};

use crate::cmd::hosts::{decode, encode, Wire};
use crate::rng::{fnv, mix, Rng};
use crate::runner::{catch, Check, Cov, RunInfo, Tier, Violation};

#[derive(Clone, Copy, Debug, PartialEq, Eq, Serialize, Deserialize)]
pub enum KApi {
    Command,
    LegacyEvent,
    LegacyAsync,
}

#[derive(Clone, Debug, PartialEq, Eq, Serialize, Deserialize)]
pub enum KOp {
    Get { key: String },
    Set { key: String, value: Vec<u8> },
    Delete { key: String },
    Exists { key: String },
    List { prefix: String, cursor: u64 },
}

impl KOp {
    fn protocol(&self) -> KeyValueOperation {
        match self.clone() {
            KOp::Get { key } => KeyValueOperation::Get { key },
            KOp::Set { key, value } => KeyValueOperation::Set { key, value },
            KOp::Delete { key } => KeyValueOperation::Delete { key },
            KOp::Exists { key } => KeyValueOperation::Exists { key },
            KOp::List { prefix, cursor } => KeyValueOperation::ListKeys { prefix, cursor },
        }
    }
    fn kind(&self) -> &'static str {
        match self {
            KOp::Get { .. } => "get",
            KOp::Set { .. } => "set",
            KOp::Delete { .. } => "delete",
            KOp::Exists { .. } => "exists",
            KOp::List { .. } => "list",
        }
    }
}

#[derive(Clone, Debug, PartialEq, Eq, Serialize, Deserialize)]
pub enum KOutcome {
    Data(Result<Option<Vec<u8>>, KeyValueError>),
    Status(Result<bool, KeyValueError>),
    List(Result<(Vec<String>, u64), KeyValueError>),
}

#[derive(Clone, Debug, PartialEq, Eq, Serialize, Deserialize)]
pub enum KEvent {
    Do { call: u32, api: KApi, op: KOp },
    Done { call: u32, outcome: KOutcome },
}

#[derive(Default)]
pub struct KModel {
    log: Vec<(u32, KOutcome)>,
}

#[derive(crux_core::macros::Effect)]
pub struct KCaps {
    pub key_value: crux_kv::KeyValue<KEvent>,
}

#[derive(Default)]
pub struct KApp;

type KCmd = Command<Effect, KEvent>;

impl crux_core::App for KApp {
    type Event = KEvent;
    type Model = KModel;
    type ViewModel = Vec<(u32, KOutcome)>;
    type Capabilities = KCaps;
    type Effect = Effect;

    fn update(&self, event: KEvent, model: &mut KModel, caps: &KCaps) -> KCmd {
        use crux_kv::command::KeyValue as K;
        match event {
            KEvent::Done { call, outcome } => {
                model.log.push((call, outcome));
                Command::done()
            }
            KEvent::Do { call, api: KApi::Command, op } => match op {
                KOp::Get { key } => K::get(key).then_send(move |r| KEvent::Done { call, outcome: KOutcome::Data(r) }),
                KOp::Set { key, value } => K::set(key, value).then_send(move |r| KEvent::Done { call, outcome: KOutcome::Data(r) }),
                KOp::Delete { key } => K::delete(key).then_send(move |r| KEvent::Done { call, outcome: KOutcome::Data(r) }),
                KOp::Exists { key } => K::exists(key).then_send(move |r| KEvent::Done { call, outcome: KOutcome::Status(r) }),
                KOp::List { prefix, cursor } => K::list_keys(prefix, cursor).then_send(move |r| KEvent::Done { call, outcome: KOutcome::List(r) }),
            },
            KEvent::Do { call, api: KApi::LegacyEvent, op } => {
                let kv = &caps.key_value;
                match op {
                    KOp::Get { key } => kv.get(key, move |r| KEvent::Done { call, outcome: KOutcome::Data(r) }),
                    KOp::Set { key, value } => kv.set(key, value, move |r| KEvent::Done { call, outcome: KOutcome::Data(r) }),
                    KOp::Delete { key } => kv.delete(key, move |r| KEvent::Done { call, outcome: KOutcome::Data(r) }),
                    KOp::Exists { key } => kv.exists(key, move |r| KEvent::Done { call, outcome: KOutcome::Status(r) }),
                    KOp::List { prefix, cursor } => kv.list_keys(prefix, cursor, move |r| KEvent::Done { call, outcome: KOutcome::List(r) }),
                }
                Command::done()
            }
            KEvent::Do { call, api: KApi::LegacyAsync, op } => {
                // async style of the old API, hosted in a command task
                let kv = caps.key_value.clone();
                Command::new(move |ctx| async move {
                    let outcome = match op {
                        KOp::Get { key } => KOutcome::Data(kv.get_async(key).await),
                        KOp::Set { key, value } => KOutcome::Data(kv.set_async(key, value).await),
                        KOp::Delete { key } => KOutcome::Data(kv.delete_async(key).await),
                        KOp::Exists { key } => KOutcome::Status(kv.exists_async(key).await),
                        KOp::List { prefix, cursor } => KOutcome::List(kv.list_keys_async(prefix, cursor).await),
                    };
                    ctx.send_event(KEvent::Done { call, outcome });
                })
            }
        }
    }

    fn view(&self, model: &KModel) -> Vec<(u32, KOutcome)> {
        model.log.clone()
    }
}

// ------------------------------------------------------------------------------------------------

#[derive(Clone, Copy, Debug, PartialEq, Eq, Serialize, Deserialize)]
pub enum KHost {
    Core,
    BridgeBincode,
    BridgeJson,
}

/// What a replay file holds for a store answer / failure: mirror types with derives of this crate,
/// so that a scenario read back from a file does not go through the (possibly changed) serde
/// implementations of the types under test.
#[derive(Clone, Debug, PartialEq, Eq, Serialize, Deserialize)]
pub enum SimResp {
    Get { value: Option<Vec<u8>> },
    Set { previous: Option<Vec<u8>> },
    Delete { previous: Option<Vec<u8>> },
    Exists { is_present: bool },
    ListKeys { keys: Vec<String>, next_cursor: u64 },
}

#[derive(Clone, Debug, PartialEq, Eq, Serialize, Deserialize)]
pub enum SimErr {
    Io { message: String },
    Timeout,
    CursorNotFound,
    Other { message: String },
}

impl SimResp {
    pub fn protocol(&self) -> KeyValueResponse {
        let v = |o: &Option<Vec<u8>>| match o {
            Some(b) => KvValue::Bytes(b.clone()),
            None => KvValue::None,
        };
        match self {
            SimResp::Get { value } => KeyValueResponse::Get { value: v(value) },
            SimResp::Set { previous } => KeyValueResponse::Set { previous: v(previous) },
            SimResp::Delete { previous } => KeyValueResponse::Delete { previous: v(previous) },
            SimResp::Exists { is_present } => KeyValueResponse::Exists { is_present: *is_present },
            SimResp::ListKeys { keys, next_cursor } => KeyValueResponse::ListKeys { keys: keys.clone(), next_cursor: *next_cursor },
        }
    }
}

impl SimErr {
    pub fn protocol(&self) -> KeyValueError {
        match self {
            SimErr::Io { message } => KeyValueError::Io { message: message.clone() },
            SimErr::Timeout => KeyValueError::Timeout,
            SimErr::CursorNotFound => KeyValueError::CursorNotFound,
            SimErr::Other { message } => KeyValueError::Other { message: message.clone() },
        }
    }
}

#[derive(Clone, Debug, PartialEq, Eq, Serialize, Deserialize)]
pub enum KAction {
    Call { call: u32, api: KApi, op: KOp },
    /// the store executes the operation of `call` now and answers
    Complete { call: u32 },
    /// the store fails the operation of `call`
    Fail { call: u32, error: SimErr },
    /// the store answers with an explicit (legal) response instead of executing: e.g. odd pages
    Answer { call: u32, response: SimResp },
}

#[derive(Clone, Debug, Serialize, Deserialize)]
pub struct KScn {
    pub host: KHost,
    pub actions: Vec<KAction>,
    pub page: usize,
}

enum KReal {
    Core(Core<KApp>),
    Bin(Bridge<KApp>),
    Json(BridgeWithSerializer<KApp>),
}

enum KHeld {
    Typed(Request<KeyValueOperation>),
    Id(u32),
}

fn viol(clause: &str, msg: String) -> Violation {
    Violation::new(format!("C17:{clause}"), msg)
}

/// reference semantics of the store
fn store_exec(store: &mut BTreeMap<String, Vec<u8>>, op: &KOp, page: usize) -> KeyValueResponse {
    match op {
        KOp::Get { key } => KeyValueResponse::Get { value: store.get(key).cloned().into() },
        KOp::Set { key, value } => KeyValueResponse::Set { previous: store.insert(key.clone(), value.clone()).into() },
        KOp::Delete { key } => KeyValueResponse::Delete { previous: store.remove(key).into() },
        KOp::Exists { key } => KeyValueResponse::Exists { is_present: store.contains_key(key) },
        KOp::List { prefix, cursor } => {
            let all: Vec<String> = store.keys().filter(|k| k.starts_with(prefix.as_str())).cloned().collect();
            let start = (*cursor as usize).min(all.len());
            let end = (start + page.max(1)).min(all.len());
            let next = if end < all.len() { end as u64 } else { 0 };
            KeyValueResponse::ListKeys { keys: all[start..end].to_vec(), next_cursor: next }
        }
    }
}

/// what the app must receive for `result` (written from the property statement)
fn expected_outcome(op: &KOp, result: &KeyValueResult) -> KOutcome {
    let err = match result {
        KeyValueResult::Err { error } => Some(error.clone()),
        KeyValueResult::Ok { .. } => None,
    };
    let opt = |v: &KvValue| -> Option<Vec<u8>> {
        match v {
            KvValue::None => None,
            KvValue::Bytes(b) => Some(b.clone()),
        }
    };
    match (op, result) {
        (KOp::Get { .. } | KOp::Set { .. } | KOp::Delete { .. }, _) if err.is_some() => KOutcome::Data(Err(err.unwrap())),
        (KOp::Exists { .. }, _) if err.is_some() => KOutcome::Status(Err(err.unwrap())),
        (KOp::List { .. }, _) if err.is_some() => KOutcome::List(Err(err.unwrap())),
        (_, KeyValueResult::Ok { response }) => match response {
            KeyValueResponse::Get { value } => KOutcome::Data(Ok(opt(value))),
            KeyValueResponse::Set { previous } | KeyValueResponse::Delete { previous } => KOutcome::Data(Ok(opt(previous))),
            KeyValueResponse::Exists { is_present } => KOutcome::Status(Ok(*is_present)),
            KeyValueResponse::ListKeys { keys, next_cursor } => KOutcome::List(Ok((keys.clone(), *next_cursor))),
        },
        _ => unreachable!(),
    }
}

fn response_matches(op: &KOp, r: &KeyValueResponse) -> bool {
    matches!(
        (op, r),
        (KOp::Get { .. }, KeyValueResponse::Get { .. })
            | (KOp::Set { .. }, KeyValueResponse::Set { .. })
            | (KOp::Delete { .. }, KeyValueResponse::Delete { .. })
            | (KOp::Exists { .. }, KeyValueResponse::Exists { .. })
            | (KOp::List { .. }, KeyValueResponse::ListKeys { .. })
    )
}

pub struct KvCheck;
pub static C17: KvCheck = KvCheck;

fn gen_string(rng: &mut Rng) -> String {
    match rng.below(9) {
        0 => String::new(),
        1 => "k".into(),
        2 => "user/profile".into(),
        3 => "ключ/κλειδί/🔑".into(),
        4 => "a\u{0}b\"\\\n\t".into(),
        5 => {
            let n = rng.range(100, 70_000) as usize;
            "x".repeat(n)
        }
        6 => "\u{feff}bom".into(),
        7 => format!("k{}", rng.below(5)),
        _ => {
            let n = rng.range(1, 12) as usize;
            (0..n).map(|_| char::from_u32(rng.range(1, 0x2fff) as u32).unwrap_or('?')).collect()
        }
    }
}

fn gen_bytes(rng: &mut Rng) -> Vec<u8> {
    match rng.below(7) {
        0 => vec![],
        1 => b"hello".to_vec(),
        2 => vec![0],
        3 => vec![0xff, 0xfe, 0x00, 0x80],
        4 => {
            let n = rng.range(1, 64) as usize;
            rng.bytes(n)
        }
        5 => rng.bytes(65_536),
        _ => "ünï©ode".as_bytes().to_vec(),
    }
}

fn gen_error(rng: &mut Rng) -> SimErr {
    match rng.below(5) {
        0 => SimErr::Io { message: gen_string(rng) },
        1 => SimErr::Timeout,
        2 => SimErr::CursorNotFound,
        3 => SimErr::Other { message: String::new() },
        _ => SimErr::Other { message: "boom \u{1F4A5}".into() },
    }
}

impl Check for KvCheck {
    type Scn = KScn;
    fn id(&self) -> &'static str {
        "C17"
    }
    fn rule(&self) -> String {
        "histories of 1-10 key-value calls (get/set/delete/exists/list_keys; command API, legacy event-style and legacy async-style) with keys, prefixes and values from {empty, ASCII, unicode, control characters, 64 KiB, arbitrary bytes}, cursors incl. 0 and u64::MAX; the simulated store executes the outstanding operations in any order against an in-memory map, or fails them with each error variant, or answers with odd but legal pages, or never answers; a run is non-trivial when >= 2 calls were outstanding at once and were completed out of order or with an injected error; distinct = distinct hash of (host, api and operation kinds, completion order, fault kinds). The data-fidelity dimension itself is only sampled by this workload generator; what simulation adds is the history dimension".to_string()
    }
    fn assumptions(&self) -> Vec<String> {
        vec!["the store answers with the response variant that matches the operation (anything else is a shell programming error which crux_kv turns into a panic by design)".into()]
    }
    fn components(&self) -> Value {
        json!({"real": ["crux_kv (command API, legacy capability, protocol types)", "crux_core Core / Bridge / BridgeWithSerializer", "serde_bytes, bincode, serde_json"], "stub": ["app that records every result it receives"], "simulated": ["key-value store behind the shell (in-memory map, reordering, error injection)"]})
    }
    fn runs(&self, tier: Tier) -> u64 {
        match tier {
            Tier::Quick => 60_000,
            Tier::Thorough => 1_500_000,
        }
    }

    fn generate(&self, rng: &mut Rng, tier: Tier) -> KScn {
        let host = *rng.pick(&[KHost::Core, KHost::BridgeBincode, KHost::BridgeJson]);
        let ncalls = rng.range(1, if tier == Tier::Thorough { 10 } else { 6 }) as u32;
        let mut actions = vec![];
        let mut open: Vec<(u32, KOp)> = vec![];
        let mut next_call = 0u32;
        let shared_keys: Vec<String> = (0..3).map(|_| gen_string(rng)).collect();
        let steps = ncalls * 3 + 2;
        for _ in 0..steps {
            let can_call = next_call < ncalls;
            let pick = if can_call && (open.is_empty() || rng.chance(1, 2)) { 0 } else if open.is_empty() { break } else { rng.range(1, 10) };
            match pick {
                0 => {
                    next_call += 1;
                    let key = if rng.chance(2, 3) { shared_keys[rng.usize_below(3)].clone() } else { gen_string(rng) };
                    let op = match rng.below(5) {
                        0 => KOp::Get { key },
                        1 => KOp::Set { key, value: gen_bytes(rng) },
                        2 => KOp::Delete { key },
                        3 => KOp::Exists { key },
                        _ => KOp::List {
                            prefix: key.chars().take(rng.usize_below(3)).collect(),
                            cursor: *rng.pick(&[0, 0, 1, 2, 7, u64::MAX, u64::from(u32::MAX) + 1]),
                        },
                    };
                    let api = *rng.pick(&[KApi::Command, KApi::LegacyEvent, KApi::LegacyAsync]);
                    open.push((next_call, op.clone()));
                    actions.push(KAction::Call { call: next_call, api, op });
                }
                1..=6 => {
                    let i = rng.usize_below(open.len());
                    let (call, _) = open.remove(i);
                    actions.push(KAction::Complete { call });
                }
                7 | 8 => {
                    let i = rng.usize_below(open.len());
                    let (call, _) = open.remove(i);
                    actions.push(KAction::Fail { call, error: gen_error(rng) });
                }
                _ => {
                    let i = rng.usize_below(open.len());
                    let (call, op) = open.remove(i);
                    let response = match &op {
                        KOp::Get { .. } => SimResp::Get { value: Some(vec![]) },
                        KOp::Set { .. } => SimResp::Set { previous: Some(gen_bytes(rng)) },
                        KOp::Delete { .. } => SimResp::Delete { previous: None },
                        KOp::Exists { .. } => SimResp::Exists { is_present: rng.chance(1, 2) },
                        KOp::List { .. } => SimResp::ListKeys {
                            keys: (0..rng.below(4)).map(|_| gen_string(rng)).collect(),
                            next_cursor: *rng.pick(&[0, 1, u64::MAX, 1 << 40]),
                        },
                    };
                    actions.push(KAction::Answer { call, response });
                }
            }
        }
        KScn { host, actions, page: rng.range(1, 4) as usize }
    }

    fn execute(&self, s: &KScn, cov: &mut Cov) -> Result<RunInfo, Violation> {
        let wire = if s.host == KHost::BridgeJson { Wire::Json } else { Wire::Bincode };
        let real = match s.host {
            KHost::Core => KReal::Core(Core::new()),
            KHost::BridgeBincode => KReal::Bin(Bridge::new(Core::new())),
            KHost::BridgeJson => KReal::Json(BridgeWithSerializer::new(Core::new())),
        };
        let mut held: BTreeMap<u32, (KOp, KHeld)> = BTreeMap::new();
        let mut store: BTreeMap<String, Vec<u8>> = BTreeMap::new();
        let mut expected: Vec<(u32, KOutcome)> = vec![];
        let mut shape = fnv(format!("{:?}", s.host).as_bytes());
        let mut max_open = 0usize;
        let mut interesting = false;
        let mut last_completed = 0u32;

        // absorb the effects returned by a call that was triggered for `call` (or by a response)
        let absorb_typed = |effs: Vec<Effect>, for_call: Option<(u32, &KOp)>, held: &mut BTreeMap<u32, (KOp, KHeld)>| -> Result<(), Violation> {
            let n = effs.len();
            match for_call {
                Some((call, op)) => {
                    if n != 1 {
                        return Err(viol("operation_count", format!("call {call} ({}) emitted {n} operations instead of exactly one", op.kind())));
                    }
                    let Effect::KeyValue(req) = effs.into_iter().next().unwrap();
                    if req.operation != op.protocol() {
                        return Err(viol("operation_altered", format!("call {call}: the shell saw {:?}, the app asked {:?}", req.operation, op.protocol())));
                    }
                    held.insert(call, (op.clone(), KHeld::Typed(req)));
                }
                None => {
                    if n != 0 {
                        return Err(viol("operation_count", format!("a response produced {n} further operations")));
                    }
                }
            }
            Ok(())
        };
        let absorb_bytes = |bytes: &[u8], for_call: Option<(u32, &KOp)>, held: &mut BTreeMap<u32, (KOp, KHeld)>| -> Result<(), Violation> {
            let reqs: Vec<crux_core::bridge::Request<EffectFfi>> = decode(wire, bytes).map_err(|e| viol("shell_decode", e))?;
            let n = reqs.len();
            match for_call {
                Some((call, op)) => {
                    if n != 1 {
                        return Err(viol("operation_count", format!("call {call} ({}) emitted {n} operations instead of exactly one", op.kind())));
                    }
                    let r = reqs.into_iter().next().unwrap();
                    let EffectFfi::KeyValue(got) = r.effect;
                    if got != op.protocol() {
                        return Err(viol("operation_altered", format!("call {call}: after the {wire:?} bridge the shell saw {got:?}, the app asked {:?}", op.protocol())));
                    }
                    held.insert(call, (op.clone(), KHeld::Id(r.id.0)));
                }
                None => {
                    if n != 0 {
                        return Err(viol("operation_count", format!("a response produced {n} further operations")));
                    }
                }
            }
            Ok(())
        };

        for (si, act) in s.actions.iter().enumerate() {
            cov.bump("sim_steps");
            match act {
                KAction::Call { call, api, op } => {
                    shape = mix(shape, fnv(format!("{api:?}{}", op.kind()).as_bytes()));
                    cov.bump(&format!("action:call_{}", op.kind()));
                    cov.bump(&format!("api:{api:?}"));
                    let ev = KEvent::Do { call: *call, api: *api, op: op.clone() };
                    match &real {
                        KReal::Core(core) => absorb_typed(core.process_event(ev), Some((*call, op)), &mut held)?,
                        KReal::Bin(b) => {
                            let out = b.process_event(&encode(wire, &ev)).map_err(|e| viol("event_rejected", e.to_string()))?;
                            absorb_bytes(&out, Some((*call, op)), &mut held)?;
                        }
                        KReal::Json(b) => {
                            let mut out = vec![];
                            let bytes = encode(wire, &ev);
                            b.process_event(&mut serde_json::Deserializer::from_slice(&bytes), &mut serde_json::Serializer::new(&mut out))
                                .map_err(|e| viol("event_rejected", e.to_string()))?;
                            absorb_bytes(&out, Some((*call, op)), &mut held)?;
                        }
                    }
                    max_open = max_open.max(held.len());
                }
                KAction::Complete { call } | KAction::Fail { call, .. } | KAction::Answer { call, .. } => {
                    let Some((op, h)) = held.remove(call) else { continue };
                    let result = match act {
                        KAction::Complete { .. } => {
                            cov.bump("action:complete");
                            KeyValueResult::Ok { response: store_exec(&mut store, &op, s.page) }
                        }
                        KAction::Fail { error, .. } => {
                            cov.bump("fault:store_error");
                            interesting = true;
                            KeyValueResult::Err { error: error.protocol() }
                        }
                        KAction::Answer { response, .. } => {
                            let response = response.protocol();
                            if !response_matches(&op, &response) {
                                continue;
                            }
                            cov.bump("fault:odd_legal_answer");
                            KeyValueResult::Ok { response }
                        }
                        KAction::Call { .. } => unreachable!(),
                    };
                    if *call < last_completed {
                        cov.bump("fault:out_of_order_completion");
                        interesting = true;
                    }
                    last_completed = last_completed.max(*call);
                    shape = mix(shape, u64::from(*call));
                    expected.push((*call, expected_outcome(&op, &result)));
                    match (&real, h) {
                        (KReal::Core(core), KHeld::Typed(mut req)) => {
                            let r = catch(|| core.resolve(&mut req, result.clone()));
                            match r {
                                Ok(Ok(effs)) => absorb_typed(effs, None, &mut held)?,
                                Ok(Err(e)) => return Err(viol("response_rejected", format!("step {si}: {e}"))),
                                Err((loc, msg)) => return Err(viol(&format!("panic:{loc}"), format!("step {si}: {msg}"))),
                            }
                        }
                        (KReal::Bin(b), KHeld::Id(id)) => {
                            let out = b.handle_response(id, &encode(wire, &result)).map_err(|e| viol("response_rejected", e.to_string()))?;
                            absorb_bytes(&out, None, &mut held)?;
                        }
                        (KReal::Json(b), KHeld::Id(id)) => {
                            let mut out = vec![];
                            let bytes = encode(wire, &result);
                            b.handle_response(id, &mut serde_json::Deserializer::from_slice(&bytes), &mut serde_json::Serializer::new(&mut out))
                                .map_err(|e| viol("response_rejected", e.to_string()))?;
                            absorb_bytes(&out, None, &mut held)?;
                        }
                        _ => unreachable!(),
                    }
                }
            }
            // the app's record must equal what the store answered, call by call, at every step
            let view: Vec<(u32, KOutcome)> = match &real {
                KReal::Core(core) => core.view(),
                KReal::Bin(b) => decode(wire, &b.view().map_err(|e| viol("view", e.to_string()))?).map_err(|e| viol("view_decode", e))?,
                KReal::Json(b) => {
                    let mut out = vec![];
                    b.view(&mut serde_json::Serializer::new(&mut out)).map_err(|e| viol("view", e.to_string()))?;
                    decode(wire, &out).map_err(|e| viol("view_decode", e))?
                }
            };
            if view != expected {
                let clause = if view.len() < expected.len() {
                    "result_missing"
                } else if view.len() > expected.len() {
                    "result_duplicated"
                } else {
                    "result_altered"
                };
                let i = view.iter().zip(expected.iter()).position(|(a, b)| a != b).unwrap_or(view.len().min(expected.len()));
                return Err(viol(clause, format!("step {si} on {:?}: the app received {:?}, the store answered {:?}", s.host, view.get(i).map(short), expected.get(i).map(short))));
            }
            cov.trace(&format!("{}", view.len()));
        }
        Ok(RunInfo { shape, nontrivial: max_open >= 2 && interesting, discarded: false })
    }

    fn shrink(&self, s: &KScn) -> Vec<KScn> {
        let mut out = vec![];
        for i in (0..s.actions.len()).rev() {
            let mut a = s.actions.clone();
            a.remove(i);
            out.push(KScn { actions: a, ..s.clone() });
        }
        out
    }
}

fn short(x: &(u32, KOutcome)) -> String {
    let s = format!("{x:?}");
    if s.len() > 300 {
        format!("{}…({} chars)", &s[..300], s.len())
    } else {
        s
    }
}
