pub mod http;
pub mod kv;
pub mod time;
