pub mod time;
