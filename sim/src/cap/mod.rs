pub mod kv;
pub mod time;
