//! C18: timers. A simulated timer service (discrete-event clock) behind the shell, a per-timer
//! reference state machine written from the property statement, the real crux_time on a directly
//! held Command, a Core and the bincode Bridge, command API and legacy capability API.

use std::collections::{BTreeMap, BTreeSet, BinaryHeap};
use std::time::{Duration, SystemTime};

use crux_core::bridge::Bridge;
use crux_core::{Command, Core, Request};
use crux_time::command::{TimerHandle, TimerOutcome};
use crux_time::{TimeRequest, TimeResponse, TimerId};
use serde::{Deserialize, Serialize};
use serde_json::{json, Value};

use crate::cmd::hosts::bincode_opts;
use crate::rng::{fnv, mix, Rng};
use crate::runner::{catch, Check, Cov, RunInfo, Tier, Violation};
use bincode::Options as _;

#[derive(Clone, Copy, Debug, PartialEq, Eq, PartialOrd, Ord, Serialize, Deserialize)]
pub enum Api {
    Command,
    Legacy,
}

#[derive(Clone, Copy, Debug, PartialEq, Eq, Serialize, Deserialize)]
pub enum Kind {
    After,
    At,
}

#[derive(Clone, Debug, PartialEq, Eq, Serialize, Deserialize)]
pub enum TEvent {
    Start { n: u32, api: Api, kind: Kind, clear_at_once: bool },
    Clear { n: u32 },
    /// old API only: the app clears the same timer a second time (it kept the id)
    ClearAgain { n: u32 },
    DropHandle { n: u32 },
    Outcome { n: u32, completed: bool },
    LegacyOutcome { n: u32, resp: TimeResponse },
    Now,
    NowIs { secs: u64 },
}

#[derive(Default)]
pub struct TModel {
    handles: BTreeMap<u32, TimerHandle>,
    legacy_ids: BTreeMap<u32, TimerId>,
    cleared_legacy_ids: BTreeMap<u32, TimerId>,
    log: Vec<TLog>,
}

#[derive(Clone, Debug, PartialEq, Eq, PartialOrd, Ord, Serialize, Deserialize)]
pub enum TLog {
    Outcome { n: u32, completed: bool },
    LegacyOutcome { n: u32, what: u8, id: usize },
    NowIs(u64),
}

#[derive(crux_core::macros::Effect)]
pub struct TCaps {
    pub time: crux_time::Time<TEvent>,
}

#[derive(Default)]
pub struct TApp;

fn dur_of(n: u32) -> Duration {
    Duration::from_millis(1000 + u64::from(n))
}
fn at_of(n: u32) -> SystemTime {
    SystemTime::UNIX_EPOCH + Duration::from_secs(1_000_000 + u64::from(n))
}

type Cmd = Command<Effect, TEvent>;

fn start_cmd(n: u32, kind: Kind, clear_at_once: bool, handles: &mut BTreeMap<u32, TimerHandle>) -> Cmd {
    use crux_time::command::Time;
    let mk = move |o: TimerOutcome| TEvent::Outcome { n, completed: matches!(o, TimerOutcome::Completed(_)) };
    match kind {
        Kind::After => {
            let (b, h) = Time::<Effect, TEvent>::notify_after(dur_of(n));
            if clear_at_once {
                h.clear();
            } else {
                handles.insert(n, h);
            }
            b.then_send(mk)
        }
        Kind::At => {
            let (b, h) = Time::<Effect, TEvent>::notify_at(at_of(n));
            if clear_at_once {
                h.clear();
            } else {
                handles.insert(n, h);
            }
            b.then_send(mk)
        }
    }
}

/// A directly held timer command whose request is answered *and* whose handle is cleared between two
/// polls: what it reports (and whether it sends a clear) must be a function of that history alone.
/// Returns a description with the timer id left out. Used by the determinism check C11.
pub fn direct_answer_and_clear(n: u32, at: bool) -> String {
    let mut handles = BTreeMap::new();
    let mut cmd = start_cmd(n, if at { Kind::At } else { Kind::After }, false, &mut handles);
    let mut reqs: Vec<crux_core::Request<TimeRequest>> = vec![];
    for e in cmd.effects() {
        let Effect::Time(r) = e;
        reqs.push(r);
    }
    let mut desc = vec![format!("requests:{}", reqs.len())];
    if let Some(mut r) = reqs.pop() {
        let id = match &r.operation {
            TimeRequest::NotifyAt { id, .. } | TimeRequest::NotifyAfter { id, .. } => *id,
            _ => return "unexpected first request".into(),
        };
        let resp = if at { TimeResponse::InstantArrived { id } } else { TimeResponse::DurationElapsed { id } };
        desc.push(format!("answer_accepted:{}", r.resolve(resp).is_ok()));
        if let Some(h) = handles.remove(&n) {
            h.clear();
        }
        for e in cmd.effects() {
            let Effect::Time(r2) = e;
            desc.push(match &r2.operation {
                TimeRequest::Clear { .. } => "sent:clear".to_string(),
                other => format!("sent:{}", format!("{other:?}").split(' ').next().unwrap_or("?")),
            });
        }
        for ev in cmd.events() {
            if let TEvent::Outcome { completed, .. } = ev {
                desc.push(format!("outcome:completed={completed}"));
            }
        }
        desc.push(format!("done:{}", cmd.is_done()));
    }
    desc.join(",")
}

fn update_impl(ev: TEvent, model: &mut TModel, caps: Option<&TCaps>) -> Cmd {
    match ev {
        TEvent::Start { n, api: Api::Command, kind, clear_at_once } => start_cmd(n, kind, clear_at_once, &mut model.handles),
        TEvent::Start { n, api: Api::Legacy, kind, clear_at_once } => {
            if let Some(caps) = caps {
                let cb = move |resp| TEvent::LegacyOutcome { n, resp };
                let id = match kind {
                    Kind::After => caps.time.notify_after(dur_of(n), cb),
                    Kind::At => caps.time.notify_at(at_of(n), cb),
                };
                if clear_at_once {
                    caps.time.clear(id);
                } else {
                    model.legacy_ids.insert(n, id);
                }
            }
            Command::done()
        }
        TEvent::Clear { n } => {
            if let Some(h) = model.handles.remove(&n) {
                h.clear();
            } else if let (Some(id), Some(caps)) = (model.legacy_ids.remove(&n), caps) {
                caps.time.clear(id);
                model.cleared_legacy_ids.insert(n, id);
            }
            Command::done()
        }
        TEvent::ClearAgain { n } => {
            if let (Some(id), Some(caps)) = (model.cleared_legacy_ids.get(&n).copied(), caps) {
                caps.time.clear(id);
            }
            Command::done()
        }
        TEvent::DropHandle { n } => {
            model.handles.remove(&n);
            Command::done()
        }
        TEvent::Outcome { n, completed } => {
            model.log.push(TLog::Outcome { n, completed });
            Command::done()
        }
        TEvent::LegacyOutcome { n, resp } => {
            let (what, id) = match resp {
                TimeResponse::Now { .. } => (0, 0),
                TimeResponse::InstantArrived { id } => (1, id.0),
                TimeResponse::DurationElapsed { id } => (2, id.0),
                TimeResponse::Cleared { id } => (3, id.0),
            };
            model.log.push(TLog::LegacyOutcome { n, what, id });
            Command::done()
        }
        TEvent::Now => crux_time::command::Time::<Effect, TEvent>::now().then_send(|t| TEvent::NowIs {
            secs: t.duration_since(SystemTime::UNIX_EPOCH).map(|d| d.as_secs()).unwrap_or(0),
        }),
        TEvent::NowIs { secs } => {
            model.log.push(TLog::NowIs(secs));
            Command::done()
        }
    }
}

impl crux_core::App for TApp {
    type Event = TEvent;
    type Model = TModel;
    type ViewModel = Vec<TLog>;
    type Capabilities = TCaps;
    type Effect = Effect;
    fn update(&self, event: TEvent, model: &mut TModel, caps: &TCaps) -> Cmd {
        update_impl(event, model, Some(caps))
    }
    fn view(&self, model: &TModel) -> Vec<TLog> {
        model.log.clone()
    }
}

// ------------------------------------------------------------------------------------------------
// scenario

#[derive(Clone, Copy, Debug, PartialEq, Eq, PartialOrd, Ord, Serialize, Deserialize)]
pub enum Which {
    Main,
    Clear,
}

#[derive(Clone, Copy, Debug, PartialEq, Eq, Serialize, Deserialize)]
pub enum THost {
    Direct,
    Core,
    Bridge,
}

#[derive(Clone, Debug, PartialEq, Eq, Serialize, Deserialize)]
pub enum TAction {
    Start { n: u32, api: Api, kind: Kind, clear_at_once: bool },
    Clear { n: u32 },
    /// old API: a second clear of a timer that is cleared and still pending (a double-tapped cancel)
    ClearAgain { n: u32 },
    DropHandle { n: u32 },
    /// the timer service answers request `which` of timer n (fire / confirm clear)
    Answer { n: u32, which: Which },
    /// the service answers the earliest pending timer according to its clock
    Tick,
    /// the service's clock jumps (forwards or backwards); changes which timer Tick picks next
    ClockJump { millis: i64 },
    DropReq { n: u32, which: Which },
    Now,
    AnswerNow,
    /// Direct host only: poll the commands (otherwise every action is followed by a poll)
    Hold,
    /// other cores in the process start `n` timers (ids come from one process-wide counter)
    Elsewhere { n: u32 },
}

#[derive(Clone, Debug, Serialize, Deserialize)]
pub struct TScn {
    pub host: THost,
    pub actions: Vec<TAction>,
    /// several cores in one process draw ids from the same counter
    pub sibling_timers: u32,
}

// ------------------------------------------------------------------------------------------------
// reference state machine, written from the property statement

#[derive(Clone, Debug, PartialEq, Eq)]
enum RSt {
    /// command API, not polled yet
    Built { cleared: bool },
    /// request sent, no answer yet
    Requested,
    /// shell answered, timer task has not run since (Direct host with Hold only)
    AnswerWaiting { clear_waiting: bool },
    /// app cleared while pending, task has not run since
    ClearWaiting,
    /// exactly one Clear{id} was sent, not answered yet
    ClearSent,
    ClearAnswerWaiting,
    Done,
    /// can never report anything (request dropped and nothing left to wake it)
    Dead,
}

#[derive(Clone, Debug)]
struct RTimer {
    api: Api,
    st: RSt,
    handle_alive: bool,
    main_req_alive: bool,
    main_answered: bool,
    clear_req_alive: bool,
    outcome: Option<bool>,
    legacy_cleared: bool,
    /// old API: cleared when it had already reported (nothing is left that could observe the clear)
    cleared_after_outcome: bool,
}

#[derive(Clone, Debug, Default)]
struct RefOut {
    /// (n, which) requests newly sent to the shell
    sent: Vec<(u32, Which)>,
    /// (n, completed)
    outcomes: Vec<(u32, bool)>,
}

#[derive(Clone, Debug, Default)]
struct Reference {
    timers: BTreeMap<u32, RTimer>,
}

impl Reference {
    /// run every timer task that has something waiting (a poll of the command / a core call)
    fn poll(&mut self, out: &mut RefOut) {
        for (n, t) in self.timers.iter_mut() {
            if t.api == Api::Legacy {
                continue;
            }
            loop {
                let before = t.st.clone();
                match t.st.clone() {
                    RSt::Built { cleared } => {
                        if cleared {
                            // cleared before it was ever requested: nothing is sent
                            t.st = RSt::Done;
                            t.outcome = Some(false);
                            out.outcomes.push((*n, false));
                        } else {
                            t.st = RSt::Requested;
                            t.main_req_alive = true;
                            out.sent.push((*n, Which::Main));
                        }
                    }
                    RSt::AnswerWaiting { .. } => {
                        // the answer was already waiting when the timer next ran: completed, no clear
                        t.st = RSt::Done;
                        t.outcome = Some(true);
                        out.outcomes.push((*n, true));
                    }
                    RSt::ClearWaiting => {
                        t.st = RSt::ClearSent;
                        t.clear_req_alive = true;
                        out.sent.push((*n, Which::Clear));
                    }
                    RSt::ClearAnswerWaiting => {
                        t.st = RSt::Done;
                        t.outcome = Some(false);
                        out.outcomes.push((*n, false));
                    }
                    RSt::Requested => {
                        if !t.main_req_alive && !t.handle_alive {
                            t.st = RSt::Dead;
                        }
                    }
                    RSt::ClearSent => {
                        if !t.clear_req_alive {
                            t.st = RSt::Dead;
                        }
                    }
                    RSt::Done | RSt::Dead => {}
                }
                if t.st == before {
                    break;
                }
            }
        }
    }

    fn clear(&mut self, n: u32, out: &mut RefOut) {
        let Some(t) = self.timers.get_mut(&n) else { return };
        match t.api {
            Api::Command => {
                if !t.handle_alive {
                    return;
                }
                t.handle_alive = false; // clear consumes the handle
                match t.st.clone() {
                    RSt::Built { .. } => t.st = RSt::Built { cleared: true },
                    RSt::Requested => t.st = RSt::ClearWaiting,
                    RSt::AnswerWaiting { .. } => t.st = RSt::AnswerWaiting { clear_waiting: true },
                    _ => {}
                }
            }
            Api::Legacy => {
                // documented behaviour of the old API: the clear notification goes out at once; the
                // timer reports Cleared when (if) its task next runs
                if t.handle_alive {
                    t.handle_alive = false;
                    t.legacy_cleared = true;
                    t.cleared_after_outcome = t.outcome.is_some();
                    out.sent.push((n, Which::Clear));
                }
            }
        }
    }

    /// what the reference expects from answering `which` of timer n: accepted?
    fn answer(&mut self, n: u32, which: Which, out: &mut RefOut) -> Option<bool> {
        let t = self.timers.get_mut(&n)?;
        match (t.api, which) {
            (Api::Command, Which::Main) => {
                if !t.main_req_alive || t.main_answered {
                    return Some(false);
                }
                t.main_answered = true;
                match t.st.clone() {
                    RSt::Requested => t.st = RSt::AnswerWaiting { clear_waiting: false },
                    RSt::ClearWaiting => t.st = RSt::AnswerWaiting { clear_waiting: true },
                    // after the outcome, or once a clear has been sent: accepted and ignored
                    _ => {}
                }
                Some(true)
            }
            (Api::Command, Which::Clear) => {
                if !t.clear_req_alive || t.st != RSt::ClearSent {
                    return Some(false);
                }
                t.st = RSt::ClearAnswerWaiting;
                Some(true)
            }
            (Api::Legacy, Which::Main) => {
                if !t.main_req_alive || t.main_answered {
                    return Some(false);
                }
                t.main_answered = true;
                if t.outcome.is_none() {
                    // the old API observes the clear when the timer task next runs, i.e. now
                    let completed = !t.legacy_cleared;
                    t.outcome = Some(completed);
                    out.outcomes.push((n, completed));
                }
                Some(true)
            }
            // the old API's clear is a notification
            (Api::Legacy, Which::Clear) => Some(false),
        }
    }
}

// ------------------------------------------------------------------------------------------------
// hosts

enum RHost {
    Direct { cmds: Vec<Cmd>, model: TModel, log_seen: usize },
    Core { core: Core<TApp>, log_seen: usize },
    Bridge { bridge: Bridge<TApp>, log_seen: usize },
}

#[derive(Default)]
struct ShellSide {
    /// typed requests by (n, which)
    typed: BTreeMap<(u32, Which), Request<TimeRequest>>,
    /// bridge ids by (n, which)
    ids: BTreeMap<(u32, Which), u32>,
    now_typed: Vec<Request<TimeRequest>>,
    now_ids: Vec<u32>,
    /// timer id observed for timer n
    timer_ids: BTreeMap<u32, usize>,
    by_id: BTreeMap<usize, u32>,
    all_ids: BTreeSet<usize>,
}

struct StepOut {
    sent: Vec<(u32, Which)>,
    outcomes: Vec<(u32, bool)>,
    errors: Vec<String>,
}

fn n_of_request(op: &TimeRequest, shell: &mut ShellSide, errors: &mut Vec<String>) -> Option<(u32, Which)> {
    match op {
        TimeRequest::Now => None,
        TimeRequest::NotifyAfter { id, duration } => {
            let d: Duration = (*duration).into();
            let n = (d.as_millis() as u64).checked_sub(1000)? as u32;
            note_id(shell, n, id.0, errors);
            Some((n, Which::Main))
        }
        TimeRequest::NotifyAt { id, instant } => {
            let t: SystemTime = (*instant).into();
            let secs = t.duration_since(SystemTime::UNIX_EPOCH).ok()?.as_secs();
            let n = secs.checked_sub(1_000_000)? as u32;
            note_id(shell, n, id.0, errors);
            Some((n, Which::Main))
        }
        TimeRequest::Clear { id } => match shell.by_id.get(&id.0) {
            Some(n) => Some((*n, Which::Clear)),
            None => {
                errors.push(format!("Clear for unknown timer id {}", id.0));
                None
            }
        },
    }
}

fn note_id(shell: &mut ShellSide, n: u32, id: usize, errors: &mut Vec<String>) {
    if !shell.all_ids.insert(id) {
        errors.push(format!("timer id {id} was given to more than one timer"));
    }
    shell.timer_ids.insert(n, id);
    shell.by_id.insert(id, n);
}

impl RHost {
    fn new(h: THost) -> RHost {
        match h {
            THost::Direct => RHost::Direct { cmds: vec![], model: TModel::default(), log_seen: 0 },
            THost::Core => RHost::Core { core: Core::new(), log_seen: 0 },
            THost::Bridge => RHost::Bridge { bridge: Bridge::new(Core::new()), log_seen: 0 },
        }
    }

    fn absorb_typed(effs: Vec<Effect>, shell: &mut ShellSide, out: &mut StepOut) {
        for e in effs {
            let Effect::Time(req) = e;
            match n_of_request(&req.operation.clone(), shell, &mut out.errors) {
                Some(k) => {
                    out.sent.push(k);
                    shell.typed.insert(k, req);
                }
                None if matches!(req.operation, TimeRequest::Now) => shell.now_typed.push(req),
                None => {}
            }
        }
    }

    fn absorb_bytes(bytes: &[u8], shell: &mut ShellSide, out: &mut StepOut) {
        let reqs: Vec<crux_core::bridge::Request<EffectFfi>> = match bincode_opts().deserialize(bytes) {
            Ok(r) => r,
            Err(e) => {
                out.errors.push(format!("could not decode effects: {e}"));
                return;
            }
        };
        for r in reqs {
            let EffectFfi::Time(op) = r.effect;
            match n_of_request(&op, shell, &mut out.errors) {
                Some(k) => {
                    out.sent.push(k);
                    shell.ids.insert(k, r.id.0);
                }
                None if matches!(op, TimeRequest::Now) => shell.now_ids.push(r.id.0),
                None => {}
            }
        }
    }

    fn event(&mut self, ev: TEvent, shell: &mut ShellSide, out: &mut StepOut) {
        match self {
            RHost::Direct { cmds, model, .. } => {
                let c = update_impl(ev, model, None);
                cmds.push(c);
            }
            RHost::Core { core, .. } => Self::absorb_typed(core.process_event(ev), shell, out),
            RHost::Bridge { bridge, .. } => match bridge.process_event(&bincode_opts().serialize(&ev).unwrap()) {
                Ok(b) => Self::absorb_bytes(&b, shell, out),
                Err(e) => out.errors.push(format!("event rejected: {e}")),
            },
        }
    }

    /// Some(accepted) if the shell holds such a request
    fn answer(&mut self, key: (u32, Which), resp: TimeResponse, shell: &mut ShellSide, out: &mut StepOut) -> Option<bool> {
        match self {
            RHost::Direct { .. } => {
                let req = shell.typed.get_mut(&key)?;
                Some(req.resolve(resp).is_ok())
            }
            RHost::Core { core, .. } => {
                let req = shell.typed.get_mut(&key)?;
                let r = catch(|| core.resolve(req, resp));
                match r {
                    Ok(Ok(effs)) => {
                        Self::absorb_typed(effs, shell, out);
                        Some(true)
                    }
                    Ok(Err(_)) => Some(false),
                    Err((loc, msg)) => {
                        if msg.contains("resolve_result.is_ok()") {
                            Some(false)
                        } else {
                            out.errors.push(format!("panic:{loc}:{msg}"));
                            Some(false)
                        }
                    }
                }
            }
            RHost::Bridge { bridge, .. } => {
                let id = *shell.ids.get(&key)?;
                match bridge.handle_response(id, &bincode_opts().serialize(&resp).unwrap()) {
                    Ok(b) => {
                        Self::absorb_bytes(&b, shell, out);
                        Some(true)
                    }
                    Err(crux_core::bridge::BridgeError::ProcessResponse(_)) => Some(false),
                    Err(e) => {
                        out.errors.push(format!("valid response rejected: {e}"));
                        Some(false)
                    }
                }
            }
        }
    }

    fn poll(&mut self, shell: &mut ShellSide, out: &mut StepOut) {
        let new_log: Vec<TLog> = match self {
            RHost::Direct { cmds, model, log_seen } => {
                loop {
                    let mut evs = vec![];
                    let mut effs = vec![];
                    for c in cmds.iter_mut() {
                        effs.extend(c.effects());
                        evs.extend(c.events());
                    }
                    Self::absorb_typed(effs, shell, out);
                    if evs.is_empty() {
                        break;
                    }
                    for e in evs {
                        let c = update_impl(e, model, None);
                        cmds.push(c);
                    }
                }
                cmds.retain_mut(|c| !c.is_done());
                let nl = model.log[*log_seen..].to_vec();
                *log_seen = model.log.len();
                nl
            }
            RHost::Core { core, log_seen } => {
                let v = core.view();
                let nl = v[*log_seen..].to_vec();
                *log_seen = v.len();
                nl
            }
            RHost::Bridge { bridge, log_seen } => {
                let v: Vec<TLog> = bridge.view().ok().and_then(|b| bincode_opts().deserialize(&b).ok()).unwrap_or_default();
                let nl = v[(*log_seen).min(v.len())..].to_vec();
                *log_seen = v.len();
                nl
            }
        };
        for l in new_log {
            match l {
                TLog::Outcome { n, completed } => out.outcomes.push((n, completed)),
                TLog::LegacyOutcome { n, what, id } => {
                    // (a timer cleared before it was requested never showed its id to the shell)
                    if shell.timer_ids.get(&n).is_some_and(|seen| *seen != id) {
                        out.errors.push(format!("legacy timer {n} reported with id {id}, its request carried {:?}", shell.timer_ids.get(&n)));
                    }
                    out.outcomes.push((n, what != 3));
                }
                TLog::NowIs(_) => {}
            }
        }
    }
}

// ------------------------------------------------------------------------------------------------
// the check

pub struct TimeCheck;
pub static C18: TimeCheck = TimeCheck;

thread_local! {
    /// the property a run is judged for (C18, or C13 when the history is part of the release check)
    static JUDGED_FOR: std::cell::Cell<&'static str> = const { std::cell::Cell::new("C18") };
}

fn viol(clause: &str, msg: String) -> Violation {
    let id = JUDGED_FOR.with(|j| j.get());
    if id == "C18" {
        Violation::new(format!("C18:{clause}"), msg)
    } else {
        Violation::new(format!("{id}:timers:{clause}"), msg)
    }
}

#[derive(Clone, Copy, PartialEq, Eq, PartialOrd, Ord)]
struct Fire {
    at: i64,
    seq: u64,
    n: u32,
}

impl TimeCheck {
    fn gen(&self, rng: &mut Rng, thorough: bool) -> TScn {
        let host = *rng.pick(&[THost::Direct, THost::Direct, THost::Core, THost::Bridge]);
        let ntimers = rng.range(1, if thorough { 6 } else { 4 }) as u32;
        let steps = rng.range(4, if thorough { 60 } else { 30 });
        self.gen_with(rng, host, ntimers, steps, (1, 3))
    }

    /// long set/clear histories, mostly through the old capability API (used by the release check C13)
    pub fn gen_history(&self, rng: &mut Rng, thorough: bool) -> TScn {
        let host = *rng.pick(&[THost::Core, THost::Bridge]);
        let ntimers = rng.range(2, if thorough { 40 } else { 12 }) as u32;
        let steps = rng.range(8, if thorough { 400 } else { 90 });
        self.gen_with(rng, host, ntimers, steps, (2, 3))
    }

    fn gen_with(&self, rng: &mut Rng, host: THost, ntimers: u32, steps: u64, legacy_share: (u64, u64)) -> TScn {
        let legacy_ok = host != THost::Direct;
        let mut actions = vec![];
        let mut r = Reference::default();
        let mut started = 0u32;
        for _ in 0..steps {
            let mut opts: Vec<(u64, u8)> = vec![];
            if started < ntimers {
                opts.push((6, 0));
            }
            let ns: Vec<u32> = r.timers.keys().copied().collect();
            if !ns.is_empty() {
                opts.extend([(5, 1), (2, 2), (6, 3), (4, 4), (1, 5), (2, 6), (3, 9)]);
            }
            opts.push((1, 7));
            if !ns.is_empty() {
                opts.push((1, 10));
            }
            if host == THost::Direct {
                opts.push((4, 8));
            }
            let w: Vec<u64> = opts.iter().map(|o| o.0).collect();
            let pick = opts[rng.weighted(&w)].1;
            let n = if ns.is_empty() { 0 } else { ns[rng.usize_below(ns.len())] };
            let a = match pick {
                0 => {
                    started += 1;
                    let api = if legacy_ok && rng.chance(legacy_share.0, legacy_share.1) { Api::Legacy } else { Api::Command };
                    let kind = if rng.chance(1, 2) { Kind::After } else { Kind::At };
                    let a = TAction::Start { n: started, api, kind, clear_at_once: rng.chance(1, 6) };
                    r.timers.insert(started, RTimer { api, st: RSt::Done, handle_alive: true, main_req_alive: true, main_answered: false, clear_req_alive: false, outcome: None, legacy_cleared: false, cleared_after_outcome: false });
                    a
                }
                1 if legacy_share == (2, 3) && rng.chance(1, 3) => TAction::ClearAgain { n },
                1 => TAction::Clear { n },
                2 => TAction::DropHandle { n },
                3 => TAction::Answer { n, which: Which::Main },
                4 => TAction::Answer { n, which: Which::Clear },
                5 => TAction::DropReq { n, which: if rng.chance(2, 3) { Which::Main } else { Which::Clear } },
                6 => TAction::ClockJump { millis: rng.range(0, 4000) as i64 - 1000 },
                7 => {
                    if rng.chance(1, 2) {
                        TAction::Now
                    } else {
                        TAction::AnswerNow
                    }
                }
                8 => TAction::Hold,
                10 => {
                    // also distances just below a power of two: the next timer of this history then gets an
                    // id that differs from an earlier one by exactly 32, 64, 128 or 256
                    let n = if rng.chance(1, 2) { *rng.pick(&[1u32, 3, 70, 150]) } else { (1u32 << rng.range(5, 8)).saturating_sub(rng.below(6) as u32) };
                    TAction::Elsewhere { n }
                }
                _ => TAction::Tick,
            };
            actions.push(a);
        }
        // drain: fire everything, confirm every clear
        for n in 1..=started {
            actions.push(TAction::Answer { n, which: Which::Main });
            actions.push(TAction::Answer { n, which: Which::Clear });
        }
        TScn { host, actions, sibling_timers: rng.range(0, 3) as u32 }
    }
}

impl Check for TimeCheck {
    type Scn = TScn;
    fn id(&self) -> &'static str {
        "C18"
    }
    fn rule(&self) -> String {
        "1-6 timers per history (notify_after / notify_at, command API with handles kept in the model and the legacy capability API), actions drawn by the PRNG: start, start-and-clear-at-once, app clears, handle dropped, timer service fires a chosen timer (early/late/duplicate), service ticks its discrete-event clock (fires the earliest deadline), clock jumps, request dropped, clear confirmed / never confirmed / confirmed twice, Now requests; on the directly held command also Hold (no poll after the action, so that answer and clear can both be waiting); a run is non-trivial when >= 2 timers were pending at once and a clear, drop or duplicate occurred; distinct = distinct hash of (host, action kinds with timer indices)".to_string()
    }
    fn assumptions(&self) -> Vec<String> {
        vec![
            "the timer service answers with the response type that matches the request (a wrong type is a shell programming error which crux_time turns into a panic by design)".into(),
            "legacy API: its documented observation point is used (the clear notification is sent at once, the timer reports Cleared when its task next runs, i.e. when the shell answers the original request); a legacy timer whose request is never answered reports nothing".into(),
            "simulated time only orders the service's Tick answers; the core never reads a clock".into(),
        ]
    }
    fn components(&self) -> Value {
        json!({"real": ["crux_time (command API, legacy capability, protocol types)", "crux_core Command / Core / Bridge"], "stub": ["app that keeps timer handles in its model"], "simulated": ["timer service with a discrete-event clock behind the shell"]})
    }
    fn runs(&self, tier: Tier) -> u64 {
        match tier {
            Tier::Quick => 200_000,
            Tier::Thorough => 5_000_000,
        }
    }
    fn generate(&self, rng: &mut Rng, tier: Tier) -> TScn {
        self.gen(rng, tier == Tier::Thorough)
    }

    fn execute(&self, s: &TScn, cov: &mut Cov) -> Result<RunInfo, Violation> {
        run_scn(s, cov, "C18")
    }

    fn shrink(&self, s: &TScn) -> Vec<TScn> {
        shrink_scn(s)
    }
}

/// One timer history against the real crux_time. Judged for C18 (ids, requests, outcomes) or, as part
/// of C13, additionally for what the process-wide set of cleared timer ids keeps.
pub fn run_scn(s: &TScn, cov: &mut Cov, judged_for: &'static str) -> Result<RunInfo, Violation> {
    JUDGED_FOR.with(|j| j.set(judged_for));
    let r = run_scn_inner(s, cov, judged_for != "C18");
    JUDGED_FOR.with(|j| j.set("C18"));
    r
}

fn run_scn_inner(s: &TScn, cov: &mut Cov, occupancy: bool) -> Result<RunInfo, Violation> {
    {
        // process-wide state left behind by earlier histories of this process must not reach this one
        crux_time::verif_reset_cleared_timer_ids();
        let cleared_base = crux_time::verif_cleared_timer_ids_len();
        let mut leak_reported = false;
        let mut host = RHost::new(s.host);
        let mut shell = ShellSide::default();
        let mut r = Reference::default();
        // (Timer ids come from a process-wide counter and differ between the searching process and a replay.
        // With the cleared-id set emptied above, a history depends only on the *differences* between its
        // ids, which are the same everywhere. An earlier version also advanced the counter to a fixed
        // residue through the command API; that kept the two APIs' ids apart and hid a seeded change that
        // gives each API a counter of its own (C18c), so it was removed.)
        // sibling cores in the same process draw from the same id counter
        let mut sib_ids = vec![];
        for i in 0..s.sibling_timers {
            let (_b, h) = crux_time::command::Time::<Effect, TEvent>::notify_after(Duration::from_millis(u64::from(i)));
            // the handle's id is only observable through Debug
            let dbg = format!("{h:?}");
            sib_ids.push(dbg);
        }
        let mut clock: i64 = 0;
        let mut heap: BinaryHeap<std::cmp::Reverse<Fire>> = BinaryHeap::new();
        let mut seq = 0u64;
        let mut shape = fnv(format!("{:?}", s.host).as_bytes());
        let mut max_pending = 0usize;
        let mut faults = 0u32;
        let mut outcomes_seen: BTreeMap<u32, u32> = BTreeMap::new();
        let mut sim_time: i64 = 0;

        for (si, act) in s.actions.iter().enumerate() {
            let mut out = StepOut { sent: vec![], outcomes: vec![], errors: vec![] };
            let mut rout = RefOut::default();
            let mut hold = false;
            let mut legacy_cleared_at_once: Option<u32> = None;
            shape = mix(shape, fnv(format!("{act:?}").as_bytes()));
            match act {
                TAction::Start { n, api, kind, clear_at_once } => {
                    if r.timers.contains_key(n) || (*api == Api::Legacy && s.host == THost::Direct) {
                        continue;
                    }
                    cov.bump(if *api == Api::Legacy { "action:start_legacy" } else { "action:start" });
                    let mut t = RTimer {
                        api: *api,
                        st: RSt::Built { cleared: false },
                        handle_alive: true,
                        main_req_alive: false,
                        main_answered: false,
                        clear_req_alive: false,
                        outcome: None,
                        legacy_cleared: false,
                        cleared_after_outcome: false,
                    };
                    if *api == Api::Legacy {
                        if *clear_at_once {
                            // cleared before it was ever requested: nothing goes to the shell, reports cleared
                            t.st = RSt::Done;
                            t.handle_alive = false;
                            t.outcome = Some(false);
                            rout.outcomes.push((*n, false));
                            legacy_cleared_at_once = Some(*n);
                        } else {
                            // the old API sends its request at once
                            t.st = RSt::Requested;
                            t.main_req_alive = true;
                            rout.sent.push((*n, Which::Main));
                        }
                    }
                    r.timers.insert(*n, t);
                    if *clear_at_once {
                        cov.bump("fault:clear_before_first_poll");
                        faults += 1;
                        if *api == Api::Command {
                            r.clear(*n, &mut rout);
                        }
                    }
                    host.event(TEvent::Start { n: *n, api: *api, kind: *kind, clear_at_once: *clear_at_once }, &mut shell, &mut out);
                }
                TAction::Clear { n } => {
                    cov.bump("fault:app_clears");
                    faults += 1;
                    r.clear(*n, &mut rout);
                    host.event(TEvent::Clear { n: *n }, &mut shell, &mut out);
                }
                TAction::ClearAgain { n } => {
                    let applies = r.timers.get(n).is_some_and(|t| t.api == Api::Legacy && t.legacy_cleared && !t.cleared_after_outcome && t.outcome.is_none());
                    if !applies {
                        continue;
                    }
                    cov.bump("fault:app_clears_again");
                    faults += 1;
                    // the old API's clear is a plain notification: it goes out again
                    rout.sent.push((*n, Which::Clear));
                    host.event(TEvent::ClearAgain { n: *n }, &mut shell, &mut out);
                }
                TAction::DropHandle { n } => {
                    cov.bump("fault:handle_dropped");
                    if let Some(t) = r.timers.get_mut(n) {
                        if t.api == Api::Command {
                            t.handle_alive = false;
                        }
                    }
                    host.event(TEvent::DropHandle { n: *n }, &mut shell, &mut out);
                }
                TAction::Answer { .. } | TAction::Tick => {
                    let (n, which) = match act {
                        TAction::Answer { n, which } => (*n, *which),
                        _ => {
                            // earliest deadline not yet answered
                            let mut pick = None;
                            while let Some(std::cmp::Reverse(f)) = heap.pop() {
                                if r.timers.get(&f.n).is_some_and(|t| !t.main_answered && t.main_req_alive) {
                                    pick = Some(f);
                                    break;
                                }
                            }
                            let Some(f) = pick else { continue };
                            if f.at > clock {
                                sim_time += f.at - clock;
                                clock = f.at;
                            }
                            cov.bump("action:tick_fires");
                            if std::env::var("VERIF_DEBUG").is_ok() { eprintln!("tick picks {} at {}", f.n, f.at); }
                            (f.n, Which::Main)
                        }
                    };
                    let Some(id) = shell.timer_ids.get(&n).copied() else { continue };
                    let resp = match which {
                        Which::Clear => TimeResponse::Cleared { id: TimerId(id) },
                        Which::Main => {
                            // answer with the type matching the request
                            match shell.typed.get(&(n, Which::Main)).map(|r| r.operation.clone()) {
                                Some(TimeRequest::NotifyAt { .. }) => TimeResponse::InstantArrived { id: TimerId(id) },
                                Some(_) => TimeResponse::DurationElapsed { id: TimerId(id) },
                                None => {
                                    // bridge: remember by kind through the action list
                                    let at = s.actions.iter().any(|a| matches!(a, TAction::Start { n: m, kind: Kind::At, .. } if *m == n));
                                    if at { TimeResponse::InstantArrived { id: TimerId(id) } } else { TimeResponse::DurationElapsed { id: TimerId(id) } }
                                }
                            }
                        }
                    };
                    let real = host.answer((n, which), resp, &mut shell, &mut out);
                    let Some(real) = real else { continue };
                    if s.host == THost::Bridge {
                        // any response makes the registry forget a one-shot or a notification entry:
                        // the id may be handed out again, a second response would reach a stranger
                        shell.ids.remove(&(n, which));
                    }
                    let exp = r.answer(n, which, &mut rout);
                    cov.bump(if exp == Some(true) { "action:answer" } else { "fault:duplicate_or_late_answer" });
                    if exp != Some(true) {
                        faults += 1;
                    }
                    // over the bridge a consumed one-shot id is vacant: rejected either way
                    if Some(real) != exp {
                        return Err(viol("answer_outcome", format!("step {si}: answering {which:?} of timer {n} was accepted={real}, reference says {exp:?}")));
                    }

                }
                TAction::ClockJump { millis } => {
                    cov.bump("fault:clock_jump");
                    clock += millis;
                    continue;
                }
                TAction::DropReq { n, which } => {
                    if s.host == THost::Bridge {
                        continue;
                    }
                    if shell.typed.remove(&(*n, *which)).is_some() {
                        cov.bump("fault:request_dropped");
                        faults += 1;
                        if let Some(t) = r.timers.get_mut(n) {
                            match which {
                                Which::Main => t.main_req_alive = false,
                                Which::Clear => t.clear_req_alive = false,
                            }
                        }
                        if s.host == THost::Core {
                            // not a call: noticed at the next call, flush with a Now request
                            host.event(TEvent::Now, &mut shell, &mut out);
                        }
                    } else {
                        continue;
                    }
                }
                TAction::Now => host.event(TEvent::Now, &mut shell, &mut out),
                TAction::AnswerNow => {
                    let resp = TimeResponse::Now { instant: crux_time::Instant::new(clock.max(0) as u64 / 1000, 0) };
                    match &mut host {
                        RHost::Direct { .. } => {
                            if let Some(mut rq) = shell.now_typed.pop() {
                                let _ = rq.resolve(resp);
                            }
                        }
                        RHost::Core { core, .. } => {
                            if let Some(mut rq) = shell.now_typed.pop() {
                                if let Ok(effs) = core.resolve(&mut rq, resp) {
                                    RHost::absorb_typed(effs, &mut shell, &mut out);
                                }
                            }
                        }
                        RHost::Bridge { bridge, .. } => {
                            if let Some(id) = shell.now_ids.pop() {
                                if let Ok(b) = bridge.handle_response(id, &bincode_opts().serialize(&resp).unwrap()) {
                                    RHost::absorb_bytes(&b, &mut shell, &mut out);
                                }
                            }
                        }
                    }
                }
                TAction::Elsewhere { n } => {
                    cov.bump("action:timers_started_elsewhere");
                    for i in 0..*n {
                        let (_b, h) = crux_time::command::Time::<Effect, TEvent>::notify_after(Duration::from_millis(u64::from(i)));
                        sib_ids.push(format!("{h:?}"));
                    }
                    continue;
                }
                TAction::Hold => {
                    // marker only: the action before it is not followed by a poll
                    let _ = &mut hold;
                    continue;
                }
            }
            let skip_poll = s.host == THost::Direct && matches!(s.actions.get(si + 1), Some(TAction::Hold));
            if !skip_poll {
                host.poll(&mut shell, &mut out);
                r.poll(&mut rout);
            } else {
                cov.bump("probe:answer_or_clear_left_waiting");
            }
            cov.bump("sim_steps");
            if let Some(n) = legacy_cleared_at_once {
                // known finding territory: the old API notifies the shell of a clear for a timer it never requested
                if let Some(p) = out.errors.iter().position(|e| e.starts_with("Clear for unknown timer id")) {
                    out.errors.remove(p);
                    if occupancy {
                        // C18's business (listed there), not judged in a release run
                    } else {
                        cov.tolerate(viol("legacy_clear_before_request_sends_clear", format!("step {si}: legacy timer {n} was cleared before it was ever requested, yet a Clear request for its id went to the shell")))?;
                    }
                }
            }
            if let Some(e) = out.errors.first() {
                let clause = if e.starts_with("panic:") { format!("panic:{}", e.split(':').nth(1).unwrap_or("?")) } else if e.contains("more than one timer") { "duplicate_timer_id".into() } else { "shell_error".into() };
                return Err(viol(&clause, format!("step {si}: {e}")));
            }
            let mut a = out.sent.clone();
            let mut b = rout.sent.clone();
            a.sort();
            b.sort();
            if a != b {
                let clause = if a.iter().filter(|k| k.1 == Which::Clear).count() > b.iter().filter(|k| k.1 == Which::Clear).count() {
                    "unexpected_clear_request"
                } else if a.len() < b.len() {
                    "request_missing"
                } else {
                    "unexpected_request"
                };
                return Err(viol(clause, format!("step {si} ({act:?}) on {:?}: requests sent {a:?}, reference {b:?}", s.host)));
            }
            let mut a = out.outcomes.clone();
            let mut b = rout.outcomes.clone();
            // The old API observes a clear whenever the timer's task next runs. A task may be polled
            // spuriously (e.g. through a stale waker of a finished command whose executor slot it
            // reuses), so a cleared legacy timer may report Cleared at any later step.
            for (n, completed) in &a {
                if !*completed && !b.contains(&(*n, false)) {
                    if let Some(t) = r.timers.get_mut(n) {
                        if t.api == Api::Legacy && t.legacy_cleared && t.outcome.is_none() {
                            t.outcome = Some(false);
                            b.push((*n, false));
                            cov.bump("probe:legacy_cleared_observed_on_spurious_poll");
                        }
                    }
                }
            }
            a.sort();
            b.sort();
            if a != b {
                let clause = if a.len() > b.len() { "unexpected_outcome" } else if a.len() < b.len() { "outcome_missing" } else { "wrong_outcome" };
                return Err(viol(clause, format!("step {si} ({act:?}) on {:?}: outcomes {a:?}, reference {b:?}", s.host)));
            }
            for (n, _) in &out.outcomes {
                let c = outcomes_seen.entry(*n).or_insert(0);
                *c += 1;
                if *c > 1 {
                    return Err(viol("second_outcome", format!("step {si}: timer {n} reported a second outcome")));
                }
            }
            for (n, w) in &out.sent {
                if *w == Which::Main {
                    let deadline = clock + 1000 + i64::from(*n);
                    seq += 1;
                    heap.push(std::cmp::Reverse(Fire { at: deadline, seq, n: *n }));
                }
            }
            if occupancy {
                // the set of cleared ids holds an id from `clear` until the timer's future is next
                // polled: bounded by the cleared timers whose future still exists
                let kept = crux_time::verif_cleared_timer_ids_len().saturating_sub(cleared_base);
                let live = r.timers.values().filter(|t| t.api == Api::Legacy && t.legacy_cleared && t.outcome.is_none()).count();
                let after = r.timers.values().filter(|t| t.api == Api::Legacy && t.cleared_after_outcome).count();
                cov.bump("probe:cleared_timer_set_read");
                if kept > live + after {
                    return Err(viol("cleared_id_set_keeps_observed_clear", format!("step {si} ({act:?}) on {:?}: the process-wide set of cleared timer ids holds {kept} ids of this history; {live} cleared timers have not run since, {after} were cleared after they had reported - the rest were observed by their timer and should be gone", s.host)));
                }
                if kept > live && !leak_reported {
                    leak_reported = true;
                    cov.tolerate(viol("cleared_id_set_keeps_finished_timer", format!("step {si} ({act:?}) on {:?}: the process-wide set of cleared timer ids holds {kept} ids of this history, only {live} cleared timers still have a future that could remove theirs (clearing a timer of the old API after it has reported leaves its id in the set for the life of the process)", s.host)))?;
                }
            }
            let pending = r.timers.values().filter(|t| matches!(t.st, RSt::Requested | RSt::ClearSent | RSt::ClearWaiting)).count();
            max_pending = max_pending.max(pending);
            cov.trace(&format!("{:?}{:?}", out.sent, out.outcomes));
            if std::env::var("VERIF_DEBUG").is_ok() {
                eprintln!("step {si} {act:?}: sent {:?} outcomes {:?} | ref sent {:?} outcomes {:?} | ids {:?}", out.sent, out.outcomes, rout.sent, rout.outcomes, shell.timer_ids);
            }
        }
        // ids unique across everything this process handed out in this run
        let mut all: BTreeSet<String> = BTreeSet::new();
        for d in &sib_ids {
            if !all.insert(d.clone()) {
                return Err(viol("duplicate_timer_id", format!("two sibling timers share {d}")));
            }
        }
        for id in &shell.all_ids {
            if sib_ids.iter().any(|d| d.contains(&format!("TimerId({id})"))) {
                return Err(viol("duplicate_timer_id", format!("timer id {id} also belongs to a timer of another core in this process")));
            }
        }
        cov.add("sim_time_ms", sim_time.max(0) as u64);
        Ok(RunInfo { shape, nontrivial: max_pending >= 2 && faults > 0, discarded: false })
    }
}

pub fn shrink_scn(s: &TScn) -> Vec<TScn> {
    {
        let mut out = vec![];
        let n = s.actions.len();
        if n > 1 {
            out.push(TScn { actions: s.actions[..n / 2].to_vec(), ..s.clone() });
        }
        for i in (0..n).rev() {
            let mut a = s.actions.clone();
            a.remove(i);
            out.push(TScn { actions: a, ..s.clone() });
        }
        if s.sibling_timers > 0 {
            out.push(TScn { sibling_timers: 0, ..s.clone() });
        }
        out
    }
}
