//! Generic runner: seeded batches in child processes, minimisation, replay files,
//! known findings, evidence.

use std::collections::{BTreeMap, BTreeSet};
use std::io::Write as _;
use std::os::unix::fs::FileExt as _;
use std::path::{Path, PathBuf};
use std::time::{Duration, Instant};

use serde::{de::DeserializeOwned, Deserialize, Serialize};
use serde_json::{json, Value};

use crate::rng::{fnv, mix, Rng};

/// root of the verification tree: the working directory of the check (the `check` script cds there)
pub fn verif_root() -> PathBuf {
    std::env::var("VERIF_ROOT").map(PathBuf::from).unwrap_or_else(|_| std::env::current_dir().expect("cwd"))
}

#[derive(Clone, Copy, Debug, PartialEq, Eq, Serialize, Deserialize)]
pub enum Tier {
    Quick,
    Thorough,
}

impl Tier {
    pub fn parse(s: &str) -> Tier {
        match s {
            "quick" => Tier::Quick,
            "thorough" => Tier::Thorough,
            _ => harness_error(&format!("unknown tier {s}")),
        }
    }
    pub fn name(self) -> &'static str {
        match self {
            Tier::Quick => "quick",
            Tier::Thorough => "thorough",
        }
    }
}

#[derive(Clone, Debug, Serialize, Deserialize)]
pub struct Violation {
    /// `<ID>:<oracle clause>:<discriminator>`; what known findings match on
    pub sig: String,
    pub msg: String,
}

impl Violation {
    pub fn new(sig: impl Into<String>, msg: impl Into<String>) -> Self {
        Violation {
            sig: sig.into(),
            msg: msg.into(),
        }
    }
}

#[derive(Clone, Debug, Default)]
pub struct RunInfo {
    /// hash of the shape of this run (program shapes, host, action-kind trace)
    pub shape: u64,
    /// non-trivial by the check's stated rule
    pub nontrivial: bool,
    /// run was discarded (ambiguous / generator limitation), not judged
    pub discarded: bool,
}

#[derive(Clone, Debug, Default, Serialize, Deserialize)]
pub struct Cov {
    pub counters: BTreeMap<String, u64>,
    pub shapes: BTreeSet<u64>,
    pub trace_hash: u64,
    /// signatures listed in known_findings.json for this property: recorded, not fatal, so that
    /// a known finding does not shadow the rest of the run
    #[serde(skip)]
    pub known: BTreeSet<String>,
}

impl Cov {
    pub fn bump(&mut self, key: &str) {
        self.add(key, 1);
    }
    pub fn add(&mut self, key: &str, n: u64) {
        if n > 0 {
            *self.counters.entry(key.to_string()).or_insert(0) += n;
        }
    }
    /// fold an observation into the trace hash (used by the determinism self-test)
    pub fn trace(&mut self, s: &str) {
        self.trace_hash = mix(self.trace_hash, fnv(s.as_bytes()));
    }
    /// A violation whose signature is a listed known finding is counted and the run goes on;
    /// anything else is returned as an error.
    pub fn tolerate(&mut self, v: Violation) -> Result<(), Violation> {
        if self.known.contains(&v.sig) {
            *self.counters.entry(format!("known_finding:{}", v.sig)).or_insert(0) += 1;
            Ok(())
        } else {
            Err(v)
        }
    }
    pub fn trace_u64(&mut self, x: u64) {
        self.trace_hash = mix(self.trace_hash, x);
    }
}

pub trait Check: Sync + Send + 'static {
    type Scn: Serialize + DeserializeOwned + Clone + Send + 'static;

    fn id(&self) -> &'static str;
    fn level(&self) -> &'static str {
        "exploration"
    }
    /// How cases are generated and what makes one distinct / non-trivial
    fn rule(&self) -> String;
    fn assumptions(&self) -> Vec<String>;
    /// which components ran real code and which ran a stub
    fn components(&self) -> Value;
    /// number of runs in a tier
    fn runs(&self, tier: Tier) -> u64;
    /// hard wall-clock cap for the whole batch (seconds)
    fn wall_cap_s(&self, tier: Tier) -> u64 {
        match tier {
            Tier::Quick => 90,
            Tier::Thorough => 1500,
        }
    }
    fn generate(&self, rng: &mut Rng, tier: Tier) -> Self::Scn;
    /// Deterministic execution of one explicit scenario against the real code.
    fn execute(&self, scn: &Self::Scn, cov: &mut Cov) -> Result<RunInfo, Violation>;
    /// Smaller variants of a failing scenario, most aggressive first
    fn shrink(&self, _scn: &Self::Scn) -> Vec<Self::Scn> {
        vec![]
    }
    /// Seed of the deterministic hash-map seam for this scenario
    fn hash_seed(&self, _scn: &Self::Scn) -> u64 {
        0
    }
    /// Probes which must be non-zero over a thorough run; reported as coverage gap if zero
    fn expected_probes(&self) -> Vec<&'static str> {
        vec![]
    }
    /// per-run watchdog (a run exceeding it counts as a hang)
    fn run_timeout(&self) -> Duration {
        Duration::from_secs(20)
    }
}

pub fn harness_error(msg: &str) -> ! {
    eprintln!("HARNESS-ERROR: {msg}");
    std::process::exit(2);
}

// ------------------------------------------------------------------------------------------------
// panic capture

thread_local! {
    static LAST_PANIC: std::cell::RefCell<Option<(String, String)>> = const { std::cell::RefCell::new(None) };
    static QUIET: std::cell::Cell<bool> = const { std::cell::Cell::new(false) };
}

pub fn install_panic_hook() {
    let default = std::panic::take_hook();
    std::panic::set_hook(Box::new(move |info| {
        let loc = info
            .location()
            .map(|l| format!("{}:{}", l.file(), l.line()))
            .unwrap_or_else(|| "?".into());
        let msg = if let Some(s) = info.payload().downcast_ref::<&str>() {
            (*s).to_string()
        } else if let Some(s) = info.payload().downcast_ref::<String>() {
            s.clone()
        } else {
            "<non-string panic>".to_string()
        };
        let _ = LAST_PANIC.try_with(|p| {
            let mut p = p.borrow_mut();
            // keep the first panic of a run (later ones are usually consequences)
            if p.is_none() {
                *p = Some((loc.clone(), msg.clone()));
            }
        });
        let quiet = QUIET.try_with(std::cell::Cell::get).unwrap_or(false);
        if !quiet {
            default(info);
        }
    }));
}

pub fn set_quiet(q: bool) {
    QUIET.with(|c| c.set(q));
}

pub fn take_last_panic() -> Option<(String, String)> {
    LAST_PANIC.with(|p| p.borrow_mut().take())
}

/// Is this panic location inside the code under test (crux or its dependencies), as opposed
/// to the harness itself?
pub fn panic_in_subject(loc: &str) -> bool {
    !loc.contains("verif/sim/src")
}

/// Normalise a panic location into something stable across machines
pub fn short_loc(loc: &str) -> String {
    let l = loc.replace('\\', "/");
    if let Some(i) = l.find("/repo/") {
        return l[i + 6..].to_string();
    }
    if let Some(i) = l.find("registry/src/") {
        let rest = &l[i + 13..];
        if let Some(j) = rest.find('/') {
            return rest[j + 1..].to_string();
        }
    }
    if let Some(i) = l.find("/library/") {
        return l[i + 1..].to_string();
    }
    l
}

/// Run `f` catching panics; a panic inside the subject becomes `Err((loc, msg))`.
/// A panic inside the harness is a harness error.
pub fn catch<R>(f: impl FnOnce() -> R) -> Result<R, (String, String)> {
    let _ = take_last_panic();
    let was_quiet = QUIET.with(std::cell::Cell::get);
    set_quiet(true);
    let r = std::panic::catch_unwind(std::panic::AssertUnwindSafe(f));
    set_quiet(was_quiet);
    match r {
        Ok(v) => {
            let _ = take_last_panic();
            Ok(v)
        }
        Err(_) => {
            let (loc, msg) = take_last_panic().unwrap_or(("?".into(), "?".into()));
            // first line only: some error types append a captured backtrace
            let msg = msg.lines().next().unwrap_or("").to_string();
            Err((short_loc(&loc), msg))
        }
    }
}

// ------------------------------------------------------------------------------------------------
// hash seed seam: see main.rs for the interposed getrandom

pub fn set_hash_seed(seed: u64) {
    crate::seams::HASH_SEED.store(seed, std::sync::atomic::Ordering::SeqCst);
}

/// Execute one scenario on a fresh thread (fresh thread-locals, fresh hash keys), catching
/// panics. Harness panics abort the process with exit code 2.
pub fn execute_isolated<C: Check>(
    check: &'static C,
    scn: &C::Scn,
    cov: &mut Cov,
) -> Result<RunInfo, Violation> {
    set_hash_seed(check.hash_seed(scn));
    let scn2 = scn.clone();
    let mut local = Cov::default();
    local.trace_hash = cov.trace_hash;
    local.known = cov.known.clone();
    let handle = std::thread::Builder::new()
        .stack_size(64 << 20)
        .spawn(move || {
            let r = catch(|| check.execute(&scn2, &mut local));
            (r, local)
        })
        .expect("spawn run thread");
    let (r, local) = match handle.join() {
        Ok(x) => x,
        Err(_) => harness_error("run thread died outside catch"),
    };
    match r {
        Ok(res) => {
            merge_cov(cov, local);
            res
        }
        Err((loc, msg)) => {
            if panic_in_subject(&loc) {
                Err(Violation::new(
                    format!("{}:panic:{}", check.id(), loc),
                    format!("panic in code under test at {loc}: {msg}"),
                ))
            } else {
                harness_error(&format!("harness panic at {loc}: {msg}"));
            }
        }
    }
}

fn merge_cov(into: &mut Cov, from: Cov) {
    for (k, v) in from.counters {
        *into.counters.entry(k).or_insert(0) += v;
    }
    into.shapes.extend(from.shapes);
    into.trace_hash = from.trace_hash;
}

// ------------------------------------------------------------------------------------------------
// replay files

#[derive(Serialize, Deserialize)]
pub struct ReplayFile {
    pub property: String,
    pub seed: u64,
    pub sig: String,
    pub msg: String,
    pub scenario: Value,
}

pub fn sig_slug(sig: &str) -> String {
    let clean: String = sig
        .chars()
        .map(|c| if c.is_ascii_alphanumeric() { c } else { '_' })
        .collect();
    let mut s: String = clean.chars().take(60).collect();
    s.push_str(&format!("_{:08x}", fnv(sig.as_bytes()) as u32));
    s
}

pub fn write_replay(dir: &Path, property: &str, seed: u64, v: &Violation, scn: Value) -> PathBuf {
    std::fs::create_dir_all(dir).ok();
    let path = dir.join(format!("{}-{}-{}.json", property, seed, sig_slug(&v.sig)));
    let rf = ReplayFile {
        property: property.to_string(),
        seed,
        sig: v.sig.clone(),
        msg: v.msg.clone(),
        scenario: scn,
    };
    std::fs::write(&path, serde_json::to_vec_pretty(&rf).unwrap()).expect("write replay");
    path
}

/// `crux-sim replay <path>`: exit 1 and print the signature if the scenario fails
pub fn replay<C: Check>(check: &'static C, path: &str, known: &[String]) -> i32 {
    let data = std::fs::read(path).unwrap_or_else(|e| harness_error(&format!("read {path}: {e}")));
    let rf: ReplayFile =
        serde_json::from_slice(&data).unwrap_or_else(|e| harness_error(&format!("parse {path}: {e}")));
    let scn: C::Scn = serde_json::from_value(rf.scenario)
        .unwrap_or_else(|e| harness_error(&format!("scenario in {path}: {e}")));
    let mut cov = Cov::default();
    cov.known = known.iter().cloned().collect();
    match execute_isolated(check, &scn, &mut cov) {
        Ok(_) => {
            println!("REPLAY result=clean property={} expected_sig={}", rf.property, rf.sig);
            0
        }
        Err(v) => {
            println!("REPLAY result=violation property={} sig={}", rf.property, v.sig);
            println!("  {}", v.msg);
            if v.sig == rf.sig {
                println!("VIOLATION property={} replay={}", rf.property, path);
            } else {
                println!("  (signature differs from recorded {})", rf.sig);
            }
            1
        }
    }
}

// ------------------------------------------------------------------------------------------------
// minimisation

pub fn minimise<C: Check>(check: &'static C, scn: C::Scn, v: &Violation, budget: usize, known: &BTreeSet<String>) -> (C::Scn, usize) {
    let mut best = scn;
    let mut used = 0usize;
    // large scenarios (thousands of steps) make every candidate expensive: minimisation also stops after a
    // fixed share of the per-run watchdog, whatever has been reached by then is reported
    let t0 = Instant::now();
    'outer: loop {
        let cands = check.shrink(&best);
        for cand in cands {
            if used >= budget || t0.elapsed() > Duration::from_secs(25) {
                break 'outer;
            }
            used += 1;
            let mut cov = Cov::default();
            cov.known = known.clone();
            if let Err(v2) = execute_isolated(check, &cand, &mut cov) {
                if v2.sig == v.sig {
                    best = cand;
                    continue 'outer;
                }
            }
        }
        break;
    }
    (best, used)
}

// ------------------------------------------------------------------------------------------------
// child

#[derive(Serialize, Deserialize, Default)]
pub struct ChildOut {
    pub evaluations: u64,
    pub nontrivial: u64,
    pub discarded: u64,
    pub counters: BTreeMap<String, u64>,
    pub shapes: Vec<u64>,
    pub samples: Vec<Value>,
    pub violations: Vec<ChildViolation>,
    pub trace_hash: u64,
    pub complete: bool,
}

#[derive(Serialize, Deserialize, Clone)]
pub struct ChildViolation {
    pub index: u64,
    pub seed: u64,
    pub sig: String,
    pub msg: String,
    pub replay: String,
    pub shrink_runs: usize,
}

pub fn run_seed(master: u64, id: &str, index: u64) -> u64 {
    mix(mix(master, fnv(id.as_bytes())), index)
}

pub struct ChildArgs {
    pub tier: Tier,
    pub master_seed: u64,
    pub start: u64,
    pub count: u64,
    pub out: PathBuf,
    pub deadline_s: u64,
    pub known_sigs: Vec<String>,
}

pub fn child<C: Check>(check: &'static C, args: &ChildArgs) -> i32 {
    let t0 = Instant::now();
    let progress = std::fs::OpenOptions::new()
        .create(true)
        .write(true)
        .truncate(true)
        .open(args.out.with_extension("progress"))
        .expect("progress file");
    let mut out = ChildOut::default();
    let mut cov = Cov::default();
    cov.known = args.known_sigs.iter().cloned().collect();
    let replay_dir = verif_root().join("replays");
    let mut seen_sigs: BTreeSet<String> = BTreeSet::new();
    for index in args.start..args.start + args.count {
        if t0.elapsed().as_secs() >= args.deadline_s {
            break;
        }
        let _ = progress.write_all_at(&index.to_le_bytes(), 0);
        let seed = run_seed(args.master_seed, check.id(), index);
        let mut rng = Rng::new(seed);
        let scn = check.generate(&mut rng, args.tier);
        if out.samples.len() < 2 && (index - args.start) % 7 == 3 {
            out.samples.push(serde_json::to_value(&scn).unwrap());
        }
        out.evaluations += 1;
        match execute_isolated(check, &scn, &mut cov) {
            Ok(info) => {
                if info.discarded {
                    out.discarded += 1;
                } else if info.nontrivial {
                    out.nontrivial += 1;
                    cov.shapes.insert(info.shape);
                }
            }
            Err(v) => {
                let known = args.known_sigs.iter().any(|s| s == &v.sig);
                if known {
                    *cov.counters.entry(format!("known_finding:{}", v.sig)).or_insert(0) += 1;
                    continue;
                }
                if seen_sigs.contains(&v.sig) {
                    *cov.counters.entry(format!("repeat_violation:{}", v.sig)).or_insert(0) += 1;
                    continue;
                }
                seen_sigs.insert(v.sig.clone());
                let (min, used) = minimise(check, scn, &v, 3000, &cov.known);
                // message of the minimised scenario
                let mut c2 = Cov::default();
                c2.known = cov.known.clone();
                let v_min = match execute_isolated(check, &min, &mut c2) {
                    Err(v2) if v2.sig == v.sig => v2,
                    _ => v.clone(),
                };
                let path = write_replay(
                    &replay_dir,
                    check.id(),
                    seed,
                    &v_min,
                    serde_json::to_value(&min).unwrap(),
                );
                out.violations.push(ChildViolation {
                    index,
                    seed,
                    sig: v_min.sig,
                    msg: v_min.msg,
                    replay: path.to_string_lossy().to_string(),
                    shrink_runs: used,
                });
                if out.violations.len() >= 5 {
                    break;
                }
            }
        }
    }
    out.complete = true;
    out.counters = cov.counters;
    out.shapes = cov.shapes.into_iter().collect();
    out.trace_hash = cov.trace_hash;
    let mut f = std::fs::File::create(&args.out).expect("child out");
    f.write_all(&serde_json::to_vec(&out).unwrap()).unwrap();
    0
}

// ------------------------------------------------------------------------------------------------
// known findings

#[derive(Serialize, Deserialize, Clone, Debug)]
pub struct KnownFinding {
    pub property: String,
    pub signature: String,
    pub what: String,
    /// path relative to /verif of the committed replay file
    #[serde(default)]
    pub replay: Option<String>,
}

#[derive(Serialize, Deserialize, Clone, Debug, Default)]
pub struct KnownFindingsFile {
    #[serde(default)]
    pub findings: Vec<KnownFinding>,
    /// `fixed: property=<id> <commit> <what failed>` — suppresses nothing
    #[serde(default)]
    pub fixed: Vec<Value>,
}

pub fn load_known() -> KnownFindingsFile {
    let p = verif_root().join("known_findings.json");
    match std::fs::read(&p) {
        Ok(d) => serde_json::from_slice(&d)
            .unwrap_or_else(|e| harness_error(&format!("known_findings.json: {e}"))),
        Err(_) => KnownFindingsFile::default(),
    }
}

// ------------------------------------------------------------------------------------------------
// parent

fn self_exe() -> PathBuf {
    std::env::current_exe().expect("current_exe")
}

struct ReplayOutcome {
    violated: bool,
    sig: Option<String>,
    hung: bool,
    crashed: bool,
    text: String,
}

fn run_replay_process(path: &str, timeout: Duration, known: &[String]) -> ReplayOutcome {
    let mut cmd = std::process::Command::new(self_exe());
    cmd.arg("replay").arg(path);
    for k in known {
        cmd.arg("--known").arg(k);
    }
    cmd.stdout(std::process::Stdio::piped());
    cmd.stderr(std::process::Stdio::piped());
    let mut ch = cmd.spawn().expect("spawn replay");
    let t0 = Instant::now();
    loop {
        match ch.try_wait().expect("wait") {
            Some(_) => break,
            None => {
                if t0.elapsed() > timeout {
                    let _ = ch.kill();
                    let _ = ch.wait();
                    return ReplayOutcome {
                        violated: true,
                        sig: None,
                        hung: true,
                        crashed: false,
                        text: "replay hung".into(),
                    };
                }
                std::thread::sleep(Duration::from_millis(5));
            }
        }
    }
    let o = ch.wait_with_output().expect("output");
    let text = String::from_utf8_lossy(&o.stdout).to_string();
    let code = o.status.code();
    let mut sig = None;
    for line in text.lines() {
        if let Some(rest) = line.strip_prefix("REPLAY result=violation") {
            if let Some(i) = rest.find("sig=") {
                sig = Some(rest[i + 4..].trim().to_string());
            }
        }
    }
    ReplayOutcome {
        violated: code == Some(1),
        sig,
        hung: false,
        crashed: code.is_none() || !(code == Some(0) || code == Some(1)),
        text: format!("{}{}", text, String::from_utf8_lossy(&o.stderr)),
    }
}

pub fn parent<C: Check>(check: &'static C, tier: Tier) -> i32 {
    let t0 = Instant::now();
    let id = check.id();
    let master_seed: u64 = std::env::var("VERIF_SEED")
        .ok()
        .and_then(|s| s.parse().ok())
        .unwrap_or(1);
    let workers: u64 = std::env::var("VERIF_WORKERS")
        .ok()
        .and_then(|s| s.parse().ok())
        .unwrap_or(16);
    let total: u64 = std::env::var("VERIF_RUNS")
        .ok()
        .and_then(|s| s.parse().ok())
        .unwrap_or_else(|| check.runs(tier));
    println!("check {id} tier={} seed={master_seed} runs={total} workers={workers}", tier.name());

    let known = load_known();
    let my_known: Vec<KnownFinding> = known
        .findings
        .iter()
        .filter(|k| k.property == id)
        .cloned()
        .collect();

    // 1. re-execute the committed replay of every known finding of this property
    let mut known_report = vec![];
    for k in &my_known {
        let Some(rp) = &k.replay else { continue };
        let path = verif_root().join(rp);
        if !path.exists() {
            harness_error(&format!("known finding replay missing: {}", path.display()));
        }
        // the other listed findings of this property are tolerated during the replay, exactly as in
        // the search, so that the replay reaches the finding it is about
        let others: Vec<String> = my_known.iter().filter(|o| o.signature != k.signature).map(|o| o.signature.clone()).collect();
        let o = run_replay_process(&path.to_string_lossy(), check.run_timeout() + Duration::from_secs(30), &others);
        let still = o.violated && o.sig.as_deref() == Some(k.signature.as_str());
        if still {
            println!("KNOWN-FINDING: property={id} {} [sig {}]", k.what, k.signature);
        } else if o.violated {
            // fails, but differently: that is an unlisted violation
            println!(
                "note: replay of known finding {} now fails with a different signature {:?}",
                k.signature, o.sig
            );
        } else {
            println!("note: known finding {} no longer reproduces", k.signature);
        }
        known_report.push(json!({"signature": k.signature, "still_fails": still, "replay": rp,
            "other_signature": if o.violated && !still { json!(o.sig) } else { Value::Null }}));
        if o.violated && !still {
            // treated below as a violation found by replay
            known_report.push(json!({"unlisted_from_replay": o.sig, "text": o.text}));
        }
    }

    // 2. the seeded search
    let work = verif_root().join("work");
    std::fs::create_dir_all(&work).ok();
    let per = total.div_ceil(workers);
    let cap = check.wall_cap_s(tier);
    let mut children = vec![];
    for w in 0..workers {
        let start = w * per;
        if start >= total {
            break;
        }
        let count = per.min(total - start);
        let out = work.join(format!("{id}-{}-{w}.json", std::process::id()));
        let _ = std::fs::remove_file(&out);
        let mut cmd = std::process::Command::new(self_exe());
        cmd.arg("child")
            .arg(id)
            .arg(tier.name())
            .arg(master_seed.to_string())
            .arg(start.to_string())
            .arg(count.to_string())
            .arg(&out)
            .arg(cap.to_string());
        for k in &my_known {
            cmd.arg(&k.signature);
        }
        cmd.stdout(std::process::Stdio::null());
        let ch = cmd.spawn().expect("spawn child");
        children.push((w, start, count, out, ch, false));
    }

    let hard_deadline = Duration::from_secs(cap + 120);
    let mut merged = ChildOut::default();
    let mut extra_violations: Vec<ChildViolation> = vec![];
    let mut pending = children.len();
    let mut done = vec![false; children.len()];
    let mut last_progress: Vec<(u64, Instant)> = children.iter().map(|_| (u64::MAX, Instant::now())).collect();
    let mut incomplete = 0u64;
    while pending > 0 {
        for (i, (w, start, _count, out, ch, _)) in children.iter_mut().enumerate() {
            if done[i] {
                continue;
            }
            let status = ch.try_wait().expect("try_wait");
            // per-run watchdog from the progress file
            let mut hung = false;
            let mut cur_index = None;
            if let Ok(d) = std::fs::read(out.with_extension("progress")) {
                if d.len() >= 8 {
                    let idx = u64::from_le_bytes(d[..8].try_into().unwrap());
                    cur_index = Some(idx);
                    if last_progress[i].0 != idx {
                        last_progress[i] = (idx, Instant::now());
                    } else if last_progress[i].1.elapsed() > check.run_timeout() + Duration::from_secs(60) {
                        hung = true;
                    }
                }
            }
            if t0.elapsed() > hard_deadline {
                hung = true;
            }
            match status {
                Some(st) => {
                    done[i] = true;
                    pending -= 1;
                    let ok = st.code() == Some(0);
                    let data = std::fs::read(&*out).ok();
                    match (ok, data) {
                        (true, Some(d)) => {
                            let co: ChildOut = serde_json::from_slice(&d)
                                .unwrap_or_else(|e| harness_error(&format!("child output: {e}")));
                            merge_child(&mut merged, co);
                        }
                        _ => {
                            if st.code() == Some(2) {
                                harness_error(&format!("child {w} reported a harness error"));
                            }
                            // the child died (abort, stack overflow, OOM kill): attribute to the seed
                            let idx = cur_index.unwrap_or(*start);
                            incomplete += 1;
                            extra_violations.push(crash_violation(check, tier, master_seed, idx, &format!("crash:{st}")));
                        }
                    }
                    let _ = std::fs::remove_file(&*out);
                    let _ = std::fs::remove_file(out.with_extension("progress"));
                }
                None if hung => {
                    let _ = ch.kill();
                    let _ = ch.wait();
                    done[i] = true;
                    pending -= 1;
                    incomplete += 1;
                    let idx = cur_index.unwrap_or(*start);
                    if t0.elapsed() > hard_deadline && last_progress[i].1.elapsed() < check.run_timeout() {
                        harness_error("batch exceeded its hard wall-clock cap while still making progress");
                    }
                    extra_violations.push(crash_violation(check, tier, master_seed, idx, "hang"));
                    let _ = std::fs::remove_file(&*out);
                    let _ = std::fs::remove_file(out.with_extension("progress"));
                }
                None => {}
            }
        }
        if pending > 0 {
            std::thread::sleep(Duration::from_millis(20));
        }
    }
    merged.violations.extend(extra_violations);

    // 3. verify each violation by replaying its file in a fresh process
    let mut confirmed: Vec<ChildViolation> = vec![];
    let mut seen: BTreeSet<String> = BTreeSet::new();
    let mut unconfirmed = 0;
    merged.violations.sort_by(|a, b| a.index.cmp(&b.index));
    for v in &merged.violations {
        if !seen.insert(v.sig.clone()) {
            continue;
        }
        if my_known.iter().any(|k| k.signature == v.sig) {
            continue;
        }
        let known_sigs: Vec<String> = my_known.iter().map(|k| k.signature.clone()).collect();
        let o = run_replay_process(&v.replay, check.run_timeout() + Duration::from_secs(30), &known_sigs);
        let same = (o.violated && o.sig.as_deref() == Some(v.sig.as_str()))
            || (o.hung && v.sig.ends_with(":hang"))
            || (o.crashed && v.sig.contains(":crash:"));
        if same {
            confirmed.push(v.clone());
        } else {
            unconfirmed += 1;
            eprintln!(
                "HARNESS-ERROR: violation {} (seed {}) did not reproduce from {}: {}",
                v.sig, v.seed, v.replay, o.text
            );
        }
    }
    for kr in &known_report {
        if let Some(s) = kr.get("unlisted_from_replay") {
            println!("VIOLATION property={id} replay=<known-finding replay changed signature: {s}>");
        }
    }

    // 4. evidence
    let wall = t0.elapsed().as_secs_f64();
    let distinct = merged.shapes.iter().collect::<BTreeSet<_>>().len() as u64;
    let mut faults = BTreeMap::new();
    let mut probes = BTreeMap::new();
    let mut other = BTreeMap::new();
    let mut known_hits = BTreeMap::new();
    for (k, v) in &merged.counters {
        if let Some(f) = k.strip_prefix("fault:") {
            faults.insert(f.to_string(), *v);
        } else if let Some(p) = k.strip_prefix("probe:") {
            probes.insert(p.to_string(), *v);
        } else if let Some(p) = k.strip_prefix("known_finding:") {
            known_hits.insert(p.to_string(), *v);
        } else {
            other.insert(k.clone(), *v);
        }
    }
    let mut assumptions = check.assumptions();
    for p in check.expected_probes() {
        if probes.get(p).copied().unwrap_or(0) == 0 {
            assumptions.push(format!("coverage gap: probe '{p}' was never reached in this run"));
        }
    }
    if incomplete > 0 {
        assumptions.push(format!("{incomplete} worker(s) did not complete their slice (crash/hang attributed to a seed)"));
    }
    let sim_steps = other.get("sim_steps").copied().unwrap_or(0);
    let evidence = json!({
        "property_id": id,
        "tier": tier.name(),
        "seed": master_seed,
        "level": check.level(),
        "coverage": {
            "evaluations": merged.evaluations,
            "distinct_nontrivial": distinct,
            "nontrivial_runs": merged.nontrivial,
            "rule": check.rule(),
            "samples": merged.samples.iter().take(3).collect::<Vec<_>>(),
            "runs_per_hour": if wall > 0.0 { (merged.evaluations as f64 / wall * 3600.0) as u64 } else { 0 },
            "seeds": format!("run i uses mix(VERIF_SEED={master_seed}, \"{id}\", i) for i in 0..{total}"),
            "sim_steps": sim_steps,
            "sim_time_covered_ms": other.get("sim_time_ms").copied().unwrap_or(0),
            "faults_injected": faults,
            "probes": probes,
            "counters": other,
            "discarded_ambiguous": merged.discarded,
            "components": check.components(),
            "known_findings_hit": known_hits,
            "known_findings_replayed": known_report,
            "workers": workers,
        },
        "assumptions": assumptions,
        "wall_s": wall,
        "violations": confirmed.len(),
    });
    let evdir = verif_root().join("evidence");
    std::fs::create_dir_all(&evdir).ok();
    std::fs::write(
        evdir.join(format!("{id}.json")),
        serde_json::to_vec_pretty(&evidence).unwrap(),
    )
    .expect("write evidence");

    println!(
        "{id}: {} runs, {} distinct non-trivial, {} discarded, {:.1}s, {} violation(s)",
        merged.evaluations,
        distinct,
        merged.discarded,
        wall,
        confirmed.len()
    );
    for v in &confirmed {
        println!("  {} (seed {}, {} shrink runs): {}", v.sig, v.seed, v.shrink_runs, v.msg);
        println!("VIOLATION property={id} replay={}", v.replay);
    }
    if unconfirmed > 0 && confirmed.is_empty() {
        return 2;
    }
    let replay_changed = known_report.iter().any(|k| k.get("unlisted_from_replay").is_some());
    i32::from(!confirmed.is_empty() || replay_changed)
}

fn crash_violation<C: Check>(check: &'static C, tier: Tier, master: u64, index: u64, what: &str) -> ChildViolation {
    let seed = run_seed(master, check.id(), index);
    let mut rng = Rng::new(seed);
    let scn = check.generate(&mut rng, tier);
    let kind = if what == "hang" { "hang".to_string() } else { format!("crash:{}", what.replace(' ', "_")) };
    let v = Violation::new(
        format!("{}:{}", check.id(), kind),
        format!("child process {what} while executing run index {index}"),
    );
    let path = write_replay(
        &verif_root().join("replays"),
        check.id(),
        seed,
        &v,
        serde_json::to_value(&scn).unwrap(),
    );
    ChildViolation {
        index,
        seed,
        sig: v.sig,
        msg: v.msg,
        replay: path.to_string_lossy().to_string(),
        shrink_runs: 0,
    }
}

fn merge_child(into: &mut ChildOut, from: ChildOut) {
    into.evaluations += from.evaluations;
    into.nontrivial += from.nontrivial;
    into.discarded += from.discarded;
    for (k, v) in from.counters {
        *into.counters.entry(k).or_insert(0) += v;
    }
    into.shapes.extend(from.shapes);
    for s in from.samples {
        if into.samples.len() < 3 {
            into.samples.push(s);
        }
    }
    into.violations.extend(from.violations);
    into.trace_hash = mix(into.trace_hash, from.trace_hash);
}

// ------------------------------------------------------------------------------------------------
// determinism self-test: every seed executed twice, trace hashes compared

pub fn selftest_determinism<C: Check>(check: &'static C, n: u64, tier: Tier) -> i32 {
    let mut bad = 0;
    for index in 0..n {
        let seed = run_seed(0xD5, check.id(), index);
        let mut hashes = vec![];
        for _ in 0..2 {
            let mut rng = Rng::new(seed);
            let scn = check.generate(&mut rng, tier);
            let mut cov = Cov::default();
            let r = execute_isolated(check, &scn, &mut cov);
            let tag = match r {
                Ok(i) => format!("ok:{}:{}", i.shape, i.discarded),
                Err(v) => format!("err:{}", v.sig),
            };
            hashes.push((cov.trace_hash, tag, serde_json::to_string(&scn).unwrap()));
        }
        if hashes[0] != hashes[1] {
            bad += 1;
            eprintln!("NONDETERMINISM {} index {index}: {:?} vs {:?}", check.id(), (&hashes[0].0, &hashes[0].1), (&hashes[1].0, &hashes[1].1));
        }
    }
    println!("selftest-determinism {}: {n} seeds x2, {bad} divergences", check.id());
    i32::from(bad > 0) * 2
}
