//! Checks decided by cmdsim: C01–C07, C09, C13 (one parameterised check type).

use serde::{Deserialize, Serialize};
use serde_json::{json, Value};

use crate::cmd::ast::Cmd;
use crate::cmd::driver::{effects_equal, log_multiset_equal, run_scenario_on, Checks};
use crate::cmd::gen::{gen_script, Action, GenCfg, ProgGen, Scenario, ScriptCfg};
use crate::cmd::hosts::HostSel;
use crate::cmd::model::RootId;
use crate::cmd::ops::{Event, IDENTITY};
use crate::cmd::shrink::shrink_scenario;
use crate::rng::{mix, Rng};
use crate::runner::{Check, Cov, RunInfo, Tier, Violation};

#[derive(Clone, Debug, PartialEq, Eq, Serialize, Deserialize)]
pub enum Law {
    DoneThen,
    ThenDone,
    AndDone,
    AllOne,
    MapEffectId,
    MapEventId,
    IntoFrom,
    AndCommute,
    AllPermute(u64),
    ThenAssoc,
    /// k wrapping layers chosen by the seed (C05: command-in-command hosting)
    Layers(u64, u32),
}

fn wrap_layers(mut c: Cmd, seed: u64, k: u32) -> Cmd {
    let mut r = Rng::new(seed);
    for _ in 0..k {
        c = match r.below(7) {
            0 => Cmd::All(vec![c]),
            1 => {
                if matches!(c, Cmd::Abortable(..)) {
                    Cmd::All(vec![c])
                } else {
                    Cmd::And(Box::new(c), Box::new(Cmd::Done))
                }
            }
            2 => Cmd::Then(Box::new(Cmd::Done), Box::new(c)),
            3 => Cmd::Then(Box::new(c), Box::new(Cmd::Done)),
            4 => Cmd::MapEffect(IDENTITY, Box::new(c)),
            5 => Cmd::MapEvent(IDENTITY, Box::new(c)),
            _ => Cmd::IntoFrom(Box::new(c)),
        };
    }
    c
}

/// apply a structural law at the first node (pre-order) where it applies
fn apply_law(law: &Law, c: &Cmd) -> Option<Cmd> {
    if let Some(x) = apply_law_here(law, c) {
        return Some(x);
    }
    if !matches!(law, Law::AndCommute | Law::AllPermute(_) | Law::ThenAssoc) {
        return None;
    }
    let bx = |x: Cmd| Box::new(x);
    match c {
        Cmd::Then(a, b) => apply_law(law, a)
            .map(|a2| Cmd::Then(bx(a2), b.clone()))
            .or_else(|| apply_law(law, b).map(|b2| Cmd::Then(a.clone(), bx(b2)))),
        Cmd::And(a, b) => apply_law(law, a)
            .filter(|a2| !matches!(a2, Cmd::Abortable(..)))
            .map(|a2| Cmd::And(bx(a2), b.clone()))
            .or_else(|| apply_law(law, b).map(|b2| Cmd::And(a.clone(), bx(b2)))),
        Cmd::All(xs) => {
            for (i, x) in xs.iter().enumerate() {
                if let Some(x2) = apply_law(law, x) {
                    let mut v = xs.clone();
                    v[i] = x2;
                    return Some(Cmd::All(v));
                }
            }
            None
        }
        Cmd::MapEffect(k, x) => apply_law(law, x).map(|y| Cmd::MapEffect(*k, bx(y))),
        Cmd::MapEvent(k, x) => apply_law(law, x).map(|y| Cmd::MapEvent(*k, bx(y))),
        Cmd::IntoFrom(x) => apply_law(law, x).map(|y| Cmd::IntoFrom(bx(y))),
        Cmd::Abortable(h, x) => apply_law(law, x).map(|y| Cmd::Abortable(*h, bx(y))),
        _ => None,
    }
}

/// the transformed program, or None where the law does not apply to this shape
fn apply_law_here(law: &Law, c: &Cmd) -> Option<Cmd> {
    let b = |x: &Cmd| Box::new(x.clone());
    Some(match law {
        Law::DoneThen => Cmd::Then(Box::new(Cmd::Done), b(c)),
        Law::ThenDone => Cmd::Then(b(c), Box::new(Cmd::Done)),
        Law::AndDone => {
            if matches!(c, Cmd::Abortable(..)) {
                return None;
            }
            Cmd::And(b(c), Box::new(Cmd::Done))
        }
        Law::AllOne => Cmd::All(vec![c.clone()]),
        Law::MapEffectId => Cmd::MapEffect(IDENTITY, b(c)),
        Law::MapEventId => Cmd::MapEvent(IDENTITY, b(c)),
        Law::IntoFrom => Cmd::IntoFrom(b(c)),
        Law::AndCommute => match c {
            // a handle taken on the left operand covers the whole `and`: not symmetric then
            Cmd::And(x, y) if !leads_with_handle(x) && !leads_with_handle(y) => Cmd::And(y.clone(), x.clone()),
            _ => return None,
        },
        Law::AllPermute(seed) => match c {
            Cmd::All(xs) if xs.len() > 1 => {
                let mut v = xs.clone();
                Rng::new(*seed).shuffle(&mut v);
                Cmd::All(v)
            }
            _ => return None,
        },
        Law::ThenAssoc => match c {
            Cmd::Then(ab, cc) => match &**ab {
                Cmd::Then(a, bb) => Cmd::Then(a.clone(), Box::new(Cmd::Then(bb.clone(), cc.clone()))),
                _ => return None,
            },
            _ => return None,
        },
        Law::Layers(seed, k) => wrap_layers(c.clone(), *seed, *k),
    })
}

fn leads_with_handle(c: &Cmd) -> bool {
    match c {
        Cmd::Abortable(..) => true,
        Cmd::And(l, _) => leads_with_handle(l),
        _ => false,
    }
}

#[derive(Clone, Debug, Serialize, Deserialize)]
pub struct CmdScn {
    pub scn: Scenario,
    /// real-vs-real: the same script under a law-transformed program must observe the same
    pub law: Option<Law>,
    /// real-vs-real: the same script under other hosts must observe the same
    pub diff_hosts: Vec<HostSel>,
    /// fault enumeration: every single cancellation placement of the base script is executed
    #[serde(default)]
    pub enumerate: bool,
    /// ... or only this one (set by the minimiser)
    #[serde(default)]
    pub placement: Option<Placement>,
    /// C13 only: instead of a program history, a timer set/clear history (crux_time keeps process-wide state)
    #[serde(default)]
    pub timers: Option<crate::cap::time::TScn>,
    /// C03 only: instead of a modelled history, a task of the app crashes (panics) in the middle of a
    /// call; the shell catches the unwind and carries on using the core
    #[serde(default)]
    pub task_fault: Option<TaskFaultScn>,
}

/// A crash of app code at a chosen point of a call: one task emits `before` events, then an event
/// whose `update` returns a command that panics when first polled (`in_continuation`) - or the task
/// panics itself after emitting everything -, then `after` more events that are queued behind.
#[derive(Clone, Debug, PartialEq, Eq, Serialize, Deserialize)]
pub struct TaskFaultScn {
    pub host: HostSel,
    pub before: u8,
    pub after: u8,
    pub in_continuation: bool,
}

/// Judged without the reference: the unwind must leave the core usable (view and further calls work),
/// and every event the task emitted before the crash is applied exactly once, in emission order, at
/// the latest by the next call.
fn run_task_fault(id: &'static str, t: &TaskFaultScn, cov: &mut Cov) -> Result<RunInfo, Violation> {
    use crate::cmd::ast::{Stmt, Task};
    use crate::cmd::ops::LogEntry;
    use crate::runner::catch;
    let viol = |clause: &str, msg: String| Violation::new(format!("{id}:{clause}"), msg);
    let mut stmts = vec![];
    let mut expect = vec![];
    for i in 0..t.before {
        stmts.push(Stmt::Emit { tag: 10 + u32::from(i), cont: None });
        expect.push(10 + u32::from(i));
    }
    if t.in_continuation {
        let faulty = Cmd::Async(Task { label: 7002, stmts: vec![Stmt::Fault] });
        stmts.push(Stmt::Emit { tag: 50, cont: Some(Box::new(faulty)) });
        expect.push(50);
    }
    for i in 0..t.after {
        stmts.push(Stmt::Emit { tag: 100 + u32::from(i), cont: None });
        expect.push(100 + u32::from(i));
    }
    if !t.in_continuation {
        stmts.push(Stmt::Fault);
    }
    let prog = Cmd::Async(Task { label: 7001, stmts });
    let mut host = crate::cmd::hosts::make_host(t.host);
    cov.bump(&format!("host:{:?}", t.host));
    let injected = |loc_msg: &str| loc_msg.contains("injected task fault");
    match catch(|| host.send_event(Event::Run(prog))) {
        Err((_, msg)) if injected(&msg) => cov.bump("fault:task_panic_unwound_through_call"),
        Ok(Err(e)) if injected(&e) => cov.bump("fault:task_panic_unwound_through_call"),
        Err((loc, msg)) => return Err(viol(&format!("panic:{loc}"), format!("the call in which a task crashed panicked elsewhere: {msg}"))),
        Ok(Err(e)) => return Err(viol("task_fault:call_failed", e)),
        Ok(Ok(())) => cov.bump("task_fault_contained_by_core"),
    }
    if let Err((loc, msg)) = catch(|| host.settle()) {
        return Err(viol("core_unusable_after_task_fault:view", format!("after a task crashed and the shell caught the unwind, reading the view panicked at {loc}: {msg}")));
    }
    match catch(|| host.send_event(Event::Noop)) {
        Err((loc, msg)) => return Err(viol("core_unusable_after_task_fault:process_event", format!("after a task crashed and the shell caught the unwind, the next event panicked at {loc}: {msg}"))),
        Ok(Err(e)) => return Err(viol("core_unusable_after_task_fault:process_event", e)),
        Ok(Ok(())) => {}
    }
    match catch(|| host.send_event(Event::Run(Cmd::Event { tag: 900, label: 7003 }))) {
        Err((loc, msg)) => return Err(viol("core_unusable_after_task_fault:process_event", format!("a later program panicked at {loc}: {msg}"))),
        Ok(Err(e)) => return Err(viol("core_unusable_after_task_fault:process_event", e)),
        Ok(Ok(())) => {}
    }
    expect.push(900);
    let log = match catch(|| {
        let _ = host.settle();
        host.full_log()
    }) {
        Ok(l) => l,
        Err((loc, msg)) => return Err(viol("core_unusable_after_task_fault:view", format!("reading the view panicked at {loc}: {msg}"))),
    };
    let got: Vec<u32> = log.iter().filter_map(|e| if let LogEntry::Em { tag, .. } = e { Some(*tag) } else { None }).collect();
    // a task that crashes in the very poll in which it emitted takes those not yet handed-over events with
    // it (they were in flight, like an unacknowledged write); what remains must still be in order, once each
    let in_flight_lost_ok = !t.in_continuation && {
        let mut it = expect.iter();
        got.iter().all(|g| it.any(|e| e == g)) && got.last() == Some(&900)
    };
    if !t.in_continuation && got.len() < expect.len() && in_flight_lost_ok {
        cov.bump("probe:events_of_the_crashed_poll_lost");
    }
    if got != expect && !in_flight_lost_ok {
        return Err(viol("events_after_task_fault", format!("events emitted before a task crashed must be applied exactly once and in order by the next call at the latest: applied {got:?}, emitted {expect:?}")));
    }
    Ok(RunInfo { shape: mix(mix(u64::from(t.before), u64::from(t.after)), if t.in_continuation { 7 } else { 3 } + t.host as u64 * 16), nontrivial: t.after > 0, discarded: false })
}

#[derive(Clone, Debug, PartialEq, Eq, Serialize, Deserialize)]
pub enum Cancel {
    Abort(u32),
    Drop(u32, u64),
    DropRoot(RootId),
    DropAll,
}

#[derive(Clone, Debug, PartialEq, Eq, Serialize, Deserialize)]
pub struct Placement {
    /// inserted as an extra step before step `at` of the base script
    pub at: usize,
    pub what: Vec<Cancel>,
}

fn with_placement(base: &Scenario, p: &Placement) -> Scenario {
    let mut s = base.clone();
    let acts: Vec<Action> = p
        .what
        .iter()
        .map(|c| match c {
            Cancel::Abort(h) => Action::Event(Event::Abort(*h)),
            Cancel::Drop(site, arg) => Action::Drop { site: *site, arg: *arg },
            Cancel::DropRoot(r) => Action::DropRoot(r.clone()),
            Cancel::DropAll => Action::DropAll,
        })
        .collect();
    let at = p.at.min(s.steps.len());
    // one cancellation per settle, so that no tie with other actions arises
    let mut k = 0;
    for a in acts {
        let is_drop = matches!(a, Action::Drop { .. });
        s.steps.insert(at + k, vec![a]);
        k += 1;
        if is_drop && (!s.host.is_direct() || s.defer_drops) {
            // a drop is not a call: a Noop call lets the core notice it before anything else happens
            s.steps.insert(at + k, vec![Action::Event(Event::Noop)]);
            k += 1;
        }
    }
    s.adaptive_drain = true;
    s
}

fn placements(base: &Scenario, bounds: &[crate::cmd::driver::Boundary], direct: bool, bridge: bool) -> Vec<Placement> {
    let mut out = vec![];
    for (i, b) in bounds.iter().enumerate().take(base.steps.len() + 1) {
        for h in &b.handles {
            out.push(Placement { at: i, what: vec![Cancel::Abort(*h)] });
            // repeated abort
            if i % 3 == 0 {
                out.push(Placement { at: i, what: vec![Cancel::Abort(*h), Cancel::Abort(*h)] });
            }
        }
        if !bridge {
            for k in &b.droppable {
                out.push(Placement { at: i, what: vec![Cancel::Drop(k.0, k.1)] });
            }
            if let (Some(h), Some(k)) = (b.handles.first(), b.droppable.last()) {
                out.push(Placement { at: i, what: vec![Cancel::Abort(*h), Cancel::Drop(k.0, k.1)] });
            }
        }
        if direct {
            for r in &b.roots {
                out.push(Placement { at: i, what: vec![Cancel::DropRoot(r.clone())] });
            }
        }
        if !bridge && i % 4 == 1 && !b.droppable.is_empty() {
            out.push(Placement { at: i, what: vec![Cancel::DropAll] });
        }
    }
    out
}

pub struct CmdCheck {
    pub id: &'static str,
    pub level: &'static str,
    pub hosts: &'static [HostSel],
    pub diff_hosts: &'static [HostSel],
    pub laws: bool,
    pub layers: bool,
    pub quiescence: bool,
    pub occupancy: bool,
    pub done: bool,
    pub buggify: bool,
    pub enumerate: bool,
    pub runs_quick: u64,
    pub runs_thorough: u64,
    pub tweak: fn(&mut GenCfg, &mut ScriptCfg, &mut Rng, HostSel),
    pub rule: &'static str,
    pub extra_assumptions: &'static [&'static str],
}

fn no_tweak(_: &mut GenCfg, _: &mut ScriptCfg, _: &mut Rng, _: HostSel) {}

impl CmdCheck {
    fn checks(&self) -> Checks {
        Checks { id: self.id, model: true, quiescence: self.quiescence, occupancy: self.occupancy, done: self.done }
    }
}

impl Check for CmdCheck {
    type Scn = CmdScn;

    fn id(&self) -> &'static str {
        self.id
    }
    fn level(&self) -> &'static str {
        self.level
    }
    fn rule(&self) -> String {
        self.rule.to_string()
    }
    fn assumptions(&self) -> Vec<String> {
        let mut v = vec![
            "task futures follow the Future contract (every poll re-registers the current waker)".to_string(),
            "per-step outputs are compared as multisets plus per-emitter order; polling order inside a call is not part of any property".to_string(),
            "the time at which aborted-but-not-yet-woken work is reaped is left open between the abort and the settle in which its last wait fires (candidate-set refinement)".to_string(),
            "runs whose outcome would depend on the order of two enabled transitions are discarded (counted under discarded_ambiguous), not judged".to_string(),
            "a clean batch is evidence over the sampled programs x schedules x fault sequences, not a proof".to_string(),
        ];
        v.extend(self.extra_assumptions.iter().map(|s| (*s).to_string()));
        v
    }
    fn components(&self) -> Value {
        json!({
            "real": ["crux_core::Command and its executor", "crux_core::Core", "QueuingExecutor", "Bridge / BridgeWithSerializer + registry", "crux_macros effect / derive(Effect) output", "serde, bincode, serde_json, erased-serde, futures, crossbeam-channel, slab"],
            "stub": ["app (interpreter app whose events carry generated programs)"],
            "simulated": ["shell: holds, reorders, delays, drops, duplicates and answers requests; aborts and drops commands and cores"],
        })
    }
    fn runs(&self, tier: Tier) -> u64 {
        match tier {
            Tier::Quick => self.runs_quick,
            Tier::Thorough => self.runs_thorough,
        }
    }

    fn generate(&self, rng: &mut Rng, tier: Tier) -> CmdScn {
        let thorough = tier == Tier::Thorough;
        let timers = if self.id == "C13" && rng.fork("timers?").chance(1, 10) {
            Some(crate::cap::time::C18.gen_history(&mut rng.fork("timers"), thorough))
        } else {
            None
        };
        let task_fault = {
            let mut frng = rng.fork("task_fault?");
            if self.id == "C03" && frng.chance(1, 50) {
                Some(TaskFaultScn {
                    host: *frng.pick(&[HostSel::CoreFx, HostSel::CoreCaps, HostSel::BridgeBincode, HostSel::BridgeJson]),
                    before: frng.below(4) as u8,
                    after: frng.below(5) as u8,
                    in_continuation: frng.chance(2, 3),
                })
            } else {
                None
            }
        };
        let mut crng = rng.fork("cfg");
        let mut cfg = GenCfg::swarm(&mut crng, thorough);
        let host = *crng.pick(self.hosts);
        cfg.legacy = host.supports_legacy() && crng.chance(1, 2);
        let xcap = crng.chance(1, 2);
        let mut sc = ScriptCfg {
            max_steps: if thorough { crng.range(10, 120) as u32 } else { crng.range(6, 50) as u32 },
            max_batch: crng.range(1, 3) as u32,
            drops: crng.chance(3, 5),
            bridge_drops: self.diff_hosts.is_empty(),
            bad_items: true,
            dups: crng.chance(2, 5),
            aborts: true,
            noops: crng.chance(1, 3),
            drop_roots: crng.chance(1, 5),
            drop_all: crng.chance(1, 8),
            order_bias: crng.below(3) as u8,
            stream_items: crng.range(1, 6) as u32,
            force_batch1: false,
            bridge_dups: false,
            abort_before_poll: self.diff_hosts.is_empty(),
            legacy_drops: false,
        };
        (self.tweak)(&mut cfg, &mut sc, &mut crng, host);
        // a command task using a capability clone: only where the host has capabilities, and not in
        // runs compared across hosts or with dropped legacy requests (S10 would be hit from a new side)
        cfg.cap_in_cmd = cfg.legacy && self.diff_hosts.is_empty() && !sc.legacy_drops && xcap;
        if !host.supports_legacy() {
            cfg.legacy = false;
        }

        let mut xrng = rng.fork("extras");
        let law = if self.laws && xrng.chance(2, 3) {
            let laws = [
                Law::DoneThen,
                Law::ThenDone,
                Law::AndDone,
                Law::AllOne,
                Law::MapEffectId,
                Law::MapEventId,
                Law::IntoFrom,
                Law::AndCommute,
                Law::AllPermute(xrng.next_u64()),
                Law::ThenAssoc,
            ];
            Some(laws[xrng.usize_below(laws.len())].clone())
        } else if self.layers {
            let k = match xrng.below(10) {
                0 => 32,
                1 => 64,
                _ => xrng.range(1, if thorough { 12 } else { 6 }) as u32,
            };
            Some(Law::Layers(xrng.next_u64(), k))
        } else {
            None
        };

        let mut prng = rng.fork("programs");
        let nprog = prng.range(1, if thorough { 4 } else { 3 }) as usize;
        let mut programs = vec![];
        for i in 0..nprog {
            let mut g = ProgGen::new(&mut prng, cfg.clone(), (i as u32 + 1) * 1000);
            let d = g.cfg.max_depth;
            // structural laws need a matching shape somewhere: give the first program one at the top
            let p = match (&law, i) {
                (Some(Law::ThenAssoc), 0) => {
                    let (a, b, c) = (g.cmd(d.saturating_sub(1)), g.cmd(d.saturating_sub(1)), g.cmd(d.saturating_sub(1)));
                    Cmd::Then(Box::new(Cmd::Then(Box::new(a), Box::new(b))), Box::new(c))
                }
                (Some(Law::AndCommute), 0) => {
                    let (a, b) = (g.cmd(d.saturating_sub(1)), g.cmd(d.saturating_sub(1)));
                    if matches!(a, Cmd::Abortable(..)) || matches!(b, Cmd::Abortable(..)) {
                        Cmd::And(Box::new(Cmd::All(vec![a])), Box::new(Cmd::All(vec![b])))
                    } else {
                        Cmd::And(Box::new(a), Box::new(b))
                    }
                }
                (Some(Law::AllPermute(_)), 0) => {
                    let n = g.rng.range(2, 4) as usize;
                    Cmd::All((0..n).map(|_| g.cmd(d.saturating_sub(1))).collect())
                }
                _ => g.cmd(d),
            };
            programs.push(p);
        }
        // scale: now and then one command asks for many things at once (more requests registered
        // with a bridge at one time than any initial table size), most of which are then answered in
        // a random order while a few stay outstanding for a long time
        let mut wrng = rng.fork("wide");
        if !self.enumerate && law.is_none() && wrng.chance(1, if host.is_bridge() { 40 } else { 300 }) {
            // (more than the registry's initial 1024 slots: not in the quick tier of the checks that run every
            // script on several hosts)
            let big = if thorough { wrng.chance(1, 12) } else { self.diff_hosts.is_empty() && wrng.chance(1, 25) };
            let n = if big { wrng.range(1030, 1100) } else { wrng.range(66, 170) } as usize;
            let mut wcfg = cfg.clone();
            wcfg.conts = false;
            let mut g = ProgGen::new(&mut wrng, wcfg, 100_000);
            let parts: Vec<Cmd> = (0..n).map(|_| Cmd::Chain(g.chain_public())).collect();
            programs.insert(0, Cmd::All(parts));
            sc.max_steps = sc.max_steps.max(4 * n as u32);
        }
        let mut srng = rng.fork("script");
        let so = gen_script(&mut srng, programs.clone(), host, &sc);
        let buggify = self.buggify && xrng.chance(1, 2) && !programs.iter().any(Cmd::has_races);
        let mut diff_hosts = vec![];
        for h in self.diff_hosts {
            if *h != host {
                diff_hosts.push(*h);
            }
        }
        CmdScn {
            scn: Scenario { host, steps: so.steps, hash_seed: mix(xrng.next_u64(), 1), buggify, drain_from: so.drain_from, adaptive_drain: false, defer_drops: !self.diff_hosts.is_empty(), bridge_dups: sc.bridge_dups, legacy_drops: sc.legacy_drops },
            law,
            diff_hosts,
            enumerate: self.enumerate,
            placement: None,
            timers,
            task_fault,
        }
    }

    fn hash_seed(&self, scn: &CmdScn) -> u64 {
        scn.scn.hash_seed
    }

    fn execute(&self, s: &CmdScn, cov: &mut Cov) -> Result<RunInfo, Violation> {
        if let Some(t) = &s.timers {
            cov.bump("timer_histories");
            return crate::cap::time::run_scn(t, cov, self.id);
        }
        crate::cmd::ops::LARGE_VALUES.store(matches!(self.id, "C09" | "C02" | "C05"), std::sync::atomic::Ordering::Relaxed);
        if let Some(t) = &s.task_fault {
            cov.bump("task_fault_histories");
            return run_task_fault(self.id, t, cov);
        }
        let ck = self.checks();
        cov.bump(&format!("host:{:?}", s.scn.host));
        if s.scn.steps.iter().flatten().any(|a| matches!(a, Action::Event(Event::Run(Cmd::All(xs))) if xs.len() > 60)) {
            cov.bump("workload:wide_program");
        }
        let base = run_scenario_on(&s.scn, s.scn.host, &ck, cov)?;
        if base.info.discarded {
            return Ok(base.info);
        }
        if s.enumerate {
            let all = match &s.placement {
                Some(p) => vec![p.clone()],
                None => placements(&s.scn, &base.boundaries, s.scn.host.is_direct(), s.scn.host.is_bridge()),
            };
            let mut info = base.info.clone();
            for (n, p) in all.iter().enumerate() {
                if n >= 400 {
                    cov.bump("placements_capped");
                    break;
                }
                cov.bump("placements_enumerated");
                for c in &p.what {
                    cov.bump(match c {
                        Cancel::Abort(_) => "placement:abort_handle",
                        Cancel::Drop(..) => "placement:drop_request",
                        Cancel::DropRoot(_) => "placement:drop_command",
                        Cancel::DropAll => "placement:drop_everything",
                    });
                }
                let scn2 = with_placement(&s.scn, p);
                let r = run_scenario_on(&scn2, s.scn.host, &ck, cov).map_err(|v| Violation::new(v.sig, format!("with cancellation {p:?} injected: {}", v.msg)))?;
                info.nontrivial |= r.info.nontrivial;
                info.shape = mix(info.shape, r.info.shape);
            }
            return Ok(info);
        }
        let has_abort = s.scn.steps.iter().flatten().any(|a| match a {
            Action::Event(Event::Run(c)) => c.has_races(),
            Action::Event(Event::Abort(_)) => true,
            _ => false,
        });
        let has_drops = s.scn.steps.iter().flatten().any(|a| matches!(a, Action::Drop { .. } | Action::DropRoot(_) | Action::DropAll));
        let nomodel = Checks { id: self.id, model: false, quiescence: false, occupancy: false, done: false };

        // a task that aborts a sibling makes and/all sensitive to the order of their parts
        let interfering = s.scn.steps.iter().flatten().any(|a| match a {
            Action::Event(Event::Run(c)) => {
                let f = std::cell::Cell::new(false);
                c.visit(&mut |_| {}, &mut |st| {
                    if matches!(st, crate::cmd::ast::Stmt::AbortCmd(_)) {
                        f.set(true);
                    }
                });
                f.get()
            }
            _ => false,
        });
        let law = s.law.as_ref().filter(|l| !(interfering && matches!(l, Law::AndCommute | Law::AllPermute(_))));
        if base.reap_slack && (s.law.is_some() || !s.diff_hosts.is_empty()) {
            // when an aborted command which nothing wakes is discarded is left open (a resolve of
            // an already discarded request wakes the tasks around it in one nesting and not in
            // another): two executions need not agree step by step, each is judged by the reference
            cov.bump("law_or_host_comparison_skipped:discard_time_open");
            return Ok(base.info);
        }
        // model-free oracle 1: algebraic laws / wrapping layers, real vs real under the same script
        if let Some(law) = law {
            let mut applies = false;
            let mut scn2 = s.scn.clone();
            scn2.buggify = false;
            for st in scn2.steps.iter_mut() {
                for a in st.iter_mut() {
                    if let Action::Event(Event::Run(c)) = a {
                        if let Some(c2) = apply_law(law, c) {
                            *c = c2;
                            applies = true;
                        }
                    }
                }
            }
            // dropping a root drops the wrapper too; DropRoot ids stay valid (same Run index)
            if applies && !(has_abort && matches!(law, Law::Layers(..)) && false) {
                cov.bump(&format!("law:{}", law_name(law)));
                let other = run_scenario_on(&scn2, s.scn.host, &nomodel, cov)?;
                compare_obs(self.id, &format!("law:{}", law_name(law)), &base.obs, &other.obs, !has_abort && self.done, !has_abort)?;
            }
        }
        // model-free oracle 2: host differential
        for h in &s.diff_hosts {
            if h.is_bridge() && has_drops {
                continue;
            }
            if !h.supports_legacy() && scenario_has_legacy(&s.scn) {
                continue;
            }
            cov.bump(&format!("diff_host:{h:?}"));
            let other = run_scenario_on(&s.scn, *h, &nomodel, cov)?;
            compare_obs(self.id, &format!("host:{:?}_vs_{:?}", s.scn.host, h), &base.obs, &other.obs, false, !has_abort)?;
        }
        Ok(base.info)
    }

    fn shrink(&self, s: &CmdScn) -> Vec<CmdScn> {
        let mut out: Vec<CmdScn> = vec![];
        if let Some(t) = &s.task_fault {
            let mut scn = s.scn.clone();
            if !scn.steps.is_empty() {
                scn.steps.clear();
                scn.drain_from = 0;
                out.push(CmdScn { scn, ..s.clone() });
            }
            if t.before > 0 {
                out.push(CmdScn { task_fault: Some(TaskFaultScn { before: t.before - 1, ..t.clone() }), ..s.clone() });
            }
            if t.after > 0 {
                out.push(CmdScn { task_fault: Some(TaskFaultScn { after: t.after - 1, ..t.clone() }), ..s.clone() });
            }
            return out;
        }
        if let Some(t) = &s.timers {
            if !s.scn.steps.is_empty() {
                // the program part is not executed for a timer history
                let mut scn = s.scn.clone();
                scn.steps.clear();
                scn.drain_from = 0;
                out.push(CmdScn { scn, ..s.clone() });
            }
            out.extend(crate::cap::time::shrink_scn(t).into_iter().map(|t2| CmdScn { timers: Some(t2), ..s.clone() }));
            return out;
        }
        if false {
            let t = s.timers.as_ref().unwrap();
            return crate::cap::time::shrink_scn(t).into_iter().map(|t2| CmdScn { timers: Some(t2), ..s.clone() }).collect();
        }
        if s.enumerate && s.placement.is_none() {
            // pin the failing placement first
            let ck = self.checks();
            let mut cov = Cov::default();
            match run_scenario_on(&s.scn, s.scn.host, &ck, &mut cov) {
                Ok(base) => {
                    for p in placements(&s.scn, &base.boundaries, s.scn.host.is_direct(), s.scn.host.is_bridge()) {
                        out.push(CmdScn { placement: Some(p), ..s.clone() });
                    }
                }
                // the base script itself fails: no cancellation needs to be injected
                Err(_) => out.push(CmdScn { enumerate: false, ..s.clone() }),
            }
            return out;
        }
        if let Some(p) = &s.placement {
            if p.what.len() > 1 {
                for i in 0..p.what.len() {
                    let mut w = p.what.clone();
                    w.remove(i);
                    out.push(CmdScn { placement: Some(Placement { at: p.at, what: w }), ..s.clone() });
                }
            }
            // cut the script after the placement, then shrink the prefix
            if p.at < s.scn.steps.len() {
                let mut scn = s.scn.clone();
                scn.steps.truncate(p.at);
                scn.drain_from = scn.drain_from.min(p.at);
                out.push(CmdScn { scn, ..s.clone() });
            }
            for i in 0..p.at.min(s.scn.steps.len()) {
                let mut scn = s.scn.clone();
                scn.steps.remove(i);
                out.push(CmdScn { scn, placement: Some(Placement { at: p.at - 1, what: p.what.clone() }), ..s.clone() });
            }
        }
        out.extend(shrink_scenario(&s.scn).into_iter().map(|scn| CmdScn { scn, ..s.clone() }));
        if s.law.is_some() {
            out.push(CmdScn { law: None, ..s.clone() });
        }
        if let Some(Law::Layers(seed, k)) = &s.law {
            if *k > 1 {
                out.push(CmdScn { law: Some(Law::Layers(*seed, k / 2)), ..s.clone() });
                out.push(CmdScn { law: Some(Law::Layers(*seed, k - 1)), ..s.clone() });
            }
        }
        for i in 0..s.diff_hosts.len() {
            let mut d = s.diff_hosts.clone();
            d.remove(i);
            out.push(CmdScn { diff_hosts: d, ..s.clone() });
        }
        out
    }

    fn expected_probes(&self) -> Vec<&'static str> {
        vec![]
    }
}

fn scenario_has_legacy(s: &Scenario) -> bool {
    s.steps.iter().flatten().any(|a| matches!(a, Action::Event(Event::Run(c)) if c.has_legacy()))
}

fn law_name(l: &Law) -> &'static str {
    match l {
        Law::DoneThen => "done_then",
        Law::ThenDone => "then_done",
        Law::AndDone => "and_done",
        Law::AllOne => "all_one",
        Law::MapEffectId => "map_effect_id",
        Law::MapEventId => "map_event_id",
        Law::IntoFrom => "into_from",
        Law::AndCommute => "and_commute",
        Law::AllPermute(_) => "all_permute",
        Law::ThenAssoc => "then_assoc",
        Law::Layers(..) => "layers",
    }
}

type Obs = Vec<(crate::cmd::hosts::StepObs, Vec<crate::cmd::model::Outcome>)>;

/// `compare_outcomes`: off where aborted work may be reaped at different times under the two
/// hostings (the properties leave that open), which shows in whether a late stream item is accepted
fn compare_obs(id: &str, what: &str, a: &Obs, b: &Obs, compare_done: bool, compare_outcomes: bool) -> Result<(), Violation> {
    for (i, ((oa, ra), (ob, rb))) in a.iter().zip(b.iter()).enumerate() {
        if !effects_equal(&oa.effects, &ob.effects) {
            return Err(Violation::new(
                format!("{id}:{what}:effects"),
                format!("step {i}: effects differ between the two real executions: {:?} vs {:?}", oa.effects, ob.effects),
            ));
        }
        if !log_multiset_equal(&oa.new_log, &ob.new_log) {
            return Err(Violation::new(
                format!("{id}:{what}:events"),
                format!("step {i}: applied events differ between the two real executions: {:?} vs {:?}", oa.new_log, ob.new_log),
            ));
        }
        if compare_outcomes && ra != rb {
            return Err(Violation::new(
                format!("{id}:{what}:resolve_outcome"),
                format!("step {i}: resolve outcomes differ: {ra:?} vs {rb:?}"),
            ));
        }
        if compare_done {
            if let (Some(da), Some(db)) = (&oa.roots_done, &ob.roots_done) {
                if da != db {
                    return Err(Violation::new(format!("{id}:{what}:done"), format!("step {i}: is_done differs: {da:?} vs {db:?}")));
                }
            }
        }
    }
    if a.len() != b.len() {
        return Err(Violation::new(format!("{id}:{what}:length"), format!("executions have {} vs {} steps", a.len(), b.len())));
    }
    Ok(())
}

// ------------------------------------------------------------------------------------------------
// the checks

const RULE: &str = "programs are generated from a swarm-configured grammar (every Command combinator, builder chains, async tasks with spawn/join/abort/select/join_all, event continuations); the action script (resolve / stream item / drop / duplicate / late resolve / abort / drop command / drop core, then a fault-free drain phase) is generated by driving the reference model with the PRNG; a run is non-trivial when at least 2 requests were outstanding at once and at least one fault or out-of-order resolution fired; distinct = distinct hash of (host, program shapes without labels, action-kind trace)";

fn c04_tweak(cfg: &mut GenCfg, _sc: &mut ScriptCfg, _rng: &mut Rng, _h: HostSel) {
    cfg.legacy = false;
}

pub static C04: CmdCheck = CmdCheck {
    id: "C04",
    level: "exploration",
    hosts: &[HostSel::Direct],
    diff_hosts: &[],
    laws: true,
    layers: false,
    quiescence: false,
    occupancy: false,
    done: true,
    buggify: false,
    enumerate: false,
    runs_quick: 300_000,
    runs_thorough: 6_000_000,
    tweak: c04_tweak,
    rule: RULE,
    extra_assumptions: &["two independent oracles: (1) reference semantics per step, (2) algebraic laws compared real-vs-real under the same script"],
};

const TYPED: &[HostSel] = &[HostSel::Direct, HostSel::CoreFx, HostSel::CoreCaps];
const CORES: &[HostSel] = &[HostSel::CoreFx, HostSel::CoreCaps];
const ALL_HOSTS: &[HostSel] =
    &[HostSel::Direct, HostSel::CoreFx, HostSel::CoreCaps, HostSel::BridgeBincode, HostSel::BridgeJson, HostSel::BridgeBincodeFx, HostSel::Stream];

fn c01_tweak(cfg: &mut GenCfg, sc: &mut ScriptCfg, rng: &mut Rng, h: HostSel) {
    cfg.conts = rng.chance(3, 4);
    cfg.tasks = true;
    cfg.legacy = h.supports_legacy() && rng.chance(2, 3);
    sc.noops = true;
    sc.drop_all = false;
}

pub static C01: CmdCheck = CmdCheck {
    id: "C01",
    level: "exploration",
    hosts: CORES,
    diff_hosts: &[],
    laws: false,
    layers: false,
    quiescence: true,
    occupancy: false,
    done: false,
    buggify: false,
    enumerate: false,
    runs_quick: 300_000,
    runs_thorough: 6_000_000,
    tweak: c01_tweak,
    rule: RULE,
    extra_assumptions: &["per call: returned effects == reference effects (nothing missing, extra or deferred), applied events == reference, runtime queues empty (verif_stats) after every call; Noop events act as probes for deferred work"],
};

fn c02_tweak(cfg: &mut GenCfg, sc: &mut ScriptCfg, rng: &mut Rng, h: HostSel) {
    cfg.streams = true;
    cfg.chains = true;
    cfg.tasks = true;
    cfg.op_b = true;
    cfg.legacy = h.supports_legacy() && rng.chance(1, 2);
    sc.dups = true;
    sc.drops = rng.chance(1, 2);
    sc.bridge_dups = rng.chance(1, 10);
    sc.order_bias = rng.below(3) as u8;
    sc.drop_all = rng.chance(1, 10);
}

pub static C02: CmdCheck = CmdCheck {
    id: "C02",
    level: "exploration",
    hosts: ALL_HOSTS,
    diff_hosts: &[],
    laws: false,
    layers: false,
    quiescence: false,
    occupancy: false,
    done: false,
    buggify: false,
    enumerate: false,
    runs_quick: 300_000,
    runs_thorough: 6_000_000,
    tweak: c02_tweak,
    rule: RULE,
    extra_assumptions: &[
        "shell-chosen response values are unique per run, so every delivered value is attributable to one request instance and one resolution",
        "under debug assertions Core::resolve escalates a rejected resolution through debug_assert!; that panic is accepted as the rejection",
        "unknown effect ids over the bridge are outside the property's domain; duplicates for consumed ids are injected rarely (known finding S6)",
    ],
};

fn c03_tweak(cfg: &mut GenCfg, sc: &mut ScriptCfg, rng: &mut Rng, h: HostSel) {
    cfg.tasks = true;
    cfg.conts = rng.chance(3, 4);
    cfg.maps = rng.chance(1, 2);
    cfg.legacy = h.supports_legacy() && rng.chance(1, 2);
    sc.noops = true;
    sc.drop_all = false;
}

pub static C03: CmdCheck = CmdCheck {
    id: "C03",
    level: "exploration",
    hosts: &[HostSel::CoreFx, HostSel::CoreCaps, HostSel::BridgeBincode, HostSel::BridgeJson],
    diff_hosts: &[],
    laws: false,
    layers: false,
    quiescence: false,
    occupancy: false,
    done: false,
    buggify: false,
    enumerate: false,
    runs_quick: 300_000,
    runs_thorough: 6_000_000,
    tweak: c03_tweak,
    rule: RULE,
    extra_assumptions: &["single-threaded half of C03 (exactly once, per-emitter order, no re-entrancy, view reflects every applied event); the concurrent-callers half is decided by C08"],
};

fn c05_tweak(cfg: &mut GenCfg, sc: &mut ScriptCfg, rng: &mut Rng, h: HostSel) {
    sc.force_batch1 = true;
    sc.drop_roots = false;
    sc.drop_all = false;
    // bridges cannot drop requests: half of the runs are drop-free so that they take part
    sc.drops = rng.chance(1, 2);
    sc.dups = rng.chance(1, 3);
    cfg.legacy = h.supports_legacy() && rng.chance(1, 2);
}

pub static C05: CmdCheck = CmdCheck {
    id: "C05",
    level: "exploration",
    hosts: &[HostSel::Direct, HostSel::Direct, HostSel::CoreCaps, HostSel::Stream],
    diff_hosts: ALL_HOSTS,
    laws: false,
    layers: true,
    quiescence: false,
    occupancy: false,
    done: false,
    buggify: false,
    enumerate: false,
    runs_quick: 150_000,
    runs_thorough: 3_000_000,
    tweak: c05_tweak,
    rule: RULE,
    extra_assumptions: &[
        "real-vs-real: the same program and script under every host that can express it (legacy programs only under hosts with the capability API, scripts with drops not under bridges) must give equal per-step effects, applied events and resolve outcomes",
        "command-in-command hosting is exercised by wrapping the program in k semantics-preserving layers (all/and/then/map_effect/map_event/into+from), k up to 64",
    ],
};

fn c06_tweak(cfg: &mut GenCfg, sc: &mut ScriptCfg, rng: &mut Rng, _h: HostSel) {
    cfg.abort_cmd = true;
    cfg.abort_task = rng.chance(1, 2);
    cfg.legacy = false;
    sc.max_steps = sc.max_steps.min(14);
    sc.aborts = false;
    sc.drops = false;
    sc.dups = rng.chance(1, 2);
    sc.drop_roots = false;
    sc.drop_all = false;
    sc.force_batch1 = true;
}

pub static C06: CmdCheck = CmdCheck {
    id: "C06",
    level: "fault_enumeration",
    hosts: &[HostSel::Direct, HostSel::CoreFx, HostSel::CoreCaps, HostSel::Stream],
    diff_hosts: &[],
    laws: false,
    layers: false,
    quiescence: false,
    occupancy: false,
    done: true,
    buggify: false,
    enumerate: true,
    runs_quick: 8_000,
    runs_thorough: 200_000,
    tweak: c06_tweak,
    rule: "for each sampled (program, fault-free base script) EVERY single cancellation placement is executed: each step boundary x each registered abort handle (also repeated), each outstanding droppable request, each live command (direct host), plus abort+drop pairs and drop-everything; after the injected cancellation the script continues (late resolves of cancelled work included) and an adaptive drain resolves what the reference still has outstanding; evaluations counts base scenarios, placements_enumerated counts executed placements; distinct/non-trivial as for the other cmdsim checks",
    extra_assumptions: &["oracle after the cancellation point: the reference model, in which cancelled work produces nothing, siblings are unaffected, late resolves are inert; abort of a directly held command is done at once, nested aborted work may be reaped any time until its last wait fires"],
};

fn c07_tweak(cfg: &mut GenCfg, sc: &mut ScriptCfg, rng: &mut Rng, _h: HostSel) {
    cfg.tasks = true;
    cfg.spawn = rng.chance(4, 5);
    cfg.select = rng.chance(3, 5);
    cfg.join_all = rng.chance(3, 5);
    cfg.yields = rng.chance(3, 5);
    cfg.legacy = false;
    sc.drops = true;
    sc.drop_all = false;
}

pub static C07: CmdCheck = CmdCheck {
    id: "C07",
    level: "exploration",
    hosts: &[HostSel::Direct],
    diff_hosts: &[],
    laws: false,
    layers: false,
    quiescence: false,
    occupancy: false,
    done: true,
    buggify: true,
    enumerate: false,
    runs_quick: 300_000,
    runs_thorough: 6_000_000,
    tweak: c07_tweak,
    rule: RULE,
    extra_assumptions: &[
        "is_done is compared at every quiescent point with the reference (which discards a task exactly when it finished, was cancelled, or can never be woken again); where requests of losing select branches are still held by the shell either answer is accepted until they are resolved or dropped",
        "spurious wake-ups of all live tasks are injected through the buggify hook in half of the race-free runs",
    ],
};

fn c09_tweak(cfg: &mut GenCfg, sc: &mut ScriptCfg, rng: &mut Rng, _h: HostSel) {
    sc.force_batch1 = true;
    sc.drops = false;
    sc.dups = false;
    sc.drop_roots = false;
    sc.drop_all = false;
    sc.order_bias = rng.below(3) as u8;
    cfg.op_b = true;
    cfg.render = true;
    cfg.legacy = rng.chance(1, 2);
}

pub static C09: CmdCheck = CmdCheck {
    id: "C09",
    level: "exploration",
    hosts: &[HostSel::CoreCaps, HostSel::CoreCaps, HostSel::CoreFx],
    diff_hosts: &[HostSel::BridgeBincode, HostSel::BridgeJson, HostSel::BridgeBincodeFx],
    laws: false,
    layers: false,
    quiescence: false,
    occupancy: false,
    done: false,
    buggify: false,
    enumerate: false,
    runs_quick: 200_000,
    runs_thorough: 4_000_000,
    tweak: c09_tweak,
    rule: RULE,
    extra_assumptions: &[
        "the typed core (judged against the reference) is the twin; each bridge must give, after decoding with the harness's own decoder, the same per-step effects, applied events and resolve outcomes; ids of outstanding requests must be pairwise distinct (checked by the simulated shell on every batch)",
        "CoreFx is compared with the bincode bridge over the same #[effect] app, CoreCaps with both bridges over the derive(Effect) app",
    ],
};

fn c13_tweak(cfg: &mut GenCfg, sc: &mut ScriptCfg, rng: &mut Rng, h: HostSel) {
    cfg.tokens = true;
    cfg.max_depth = cfg.max_depth.min(3);
    cfg.legacy = h.supports_legacy() && rng.chance(1, 3);
    sc.max_steps = rng.range(60, 400) as u32;
    sc.noops = false;
    sc.drop_all = rng.chance(1, 6);
    sc.drop_roots = rng.chance(1, 4);
    sc.legacy_drops = cfg.legacy && rng.chance(1, 2);
}

pub static C13: CmdCheck = CmdCheck {
    id: "C13",
    level: "exploration",
    hosts: &[HostSel::Direct, HostSel::CoreFx, HostSel::CoreCaps, HostSel::BridgeBincode],
    diff_hosts: &[],
    laws: false,
    layers: false,
    quiescence: false,
    occupancy: true,
    done: true,
    buggify: false,
    enumerate: false,
    runs_quick: 100_000,
    runs_thorough: 2_000_000,
    tweak: c13_tweak,
    rule: "long histories of many small programs started one after another (start -> resolve / drop / abort -> finish), tasks holding drop-counted tokens; occupancy (executor tasks, command tasks, registry entries by kind, live tokens) is compared with the reference's outstanding work at every quiescent point and must be zero after the drain phase and after the host is dropped; non-trivial/distinct as for the other cmdsim checks",
    extra_assumptions: &["occupancy is read through the read-only verif accessors; registry growth is additionally bounded hook-free by the largest effect id handed out"],
};

#[allow(dead_code)]
pub fn unused() {
    let _ = no_tweak;
    let _ = TYPED;
}
