//! Checks decided by cmdsim: C01–C07, C09, C13 (one parameterised check type).

use serde::{Deserialize, Serialize};
use serde_json::{json, Value};

use crate::cmd::ast::Cmd;
use crate::cmd::driver::{effects_equal, log_multiset_equal, run_scenario_on, Checks};
use crate::cmd::gen::{gen_script, Action, GenCfg, ProgGen, Scenario, ScriptCfg};
use crate::cmd::hosts::HostSel;
use crate::cmd::ops::{Event, IDENTITY};
use crate::cmd::shrink::shrink_scenario;
use crate::rng::{mix, Rng};
use crate::runner::{Check, Cov, RunInfo, Tier, Violation};

#[derive(Clone, Debug, PartialEq, Eq, Serialize, Deserialize)]
pub enum Law {
    DoneThen,
    ThenDone,
    AndDone,
    AllOne,
    MapEffectId,
    MapEventId,
    IntoFrom,
    AndCommute,
    AllPermute(u64),
    ThenAssoc,
    /// k wrapping layers chosen by the seed (C05: command-in-command hosting)
    Layers(u64, u32),
}

fn wrap_layers(mut c: Cmd, seed: u64, k: u32) -> Cmd {
    let mut r = Rng::new(seed);
    for _ in 0..k {
        c = match r.below(7) {
            0 => Cmd::All(vec![c]),
            1 => {
                if matches!(c, Cmd::Abortable(..)) {
                    Cmd::All(vec![c])
                } else {
                    Cmd::And(Box::new(c), Box::new(Cmd::Done))
                }
            }
            2 => Cmd::Then(Box::new(Cmd::Done), Box::new(c)),
            3 => Cmd::Then(Box::new(c), Box::new(Cmd::Done)),
            4 => Cmd::MapEffect(IDENTITY, Box::new(c)),
            5 => Cmd::MapEvent(IDENTITY, Box::new(c)),
            _ => Cmd::IntoFrom(Box::new(c)),
        };
    }
    c
}

/// apply a structural law at the first node (pre-order) where it applies
fn apply_law(law: &Law, c: &Cmd) -> Option<Cmd> {
    if let Some(x) = apply_law_here(law, c) {
        return Some(x);
    }
    if !matches!(law, Law::AndCommute | Law::AllPermute(_) | Law::ThenAssoc) {
        return None;
    }
    let bx = |x: Cmd| Box::new(x);
    match c {
        Cmd::Then(a, b) => apply_law(law, a)
            .map(|a2| Cmd::Then(bx(a2), b.clone()))
            .or_else(|| apply_law(law, b).map(|b2| Cmd::Then(a.clone(), bx(b2)))),
        Cmd::And(a, b) => apply_law(law, a)
            .filter(|a2| !matches!(a2, Cmd::Abortable(..)))
            .map(|a2| Cmd::And(bx(a2), b.clone()))
            .or_else(|| apply_law(law, b).map(|b2| Cmd::And(a.clone(), bx(b2)))),
        Cmd::All(xs) => {
            for (i, x) in xs.iter().enumerate() {
                if let Some(x2) = apply_law(law, x) {
                    let mut v = xs.clone();
                    v[i] = x2;
                    return Some(Cmd::All(v));
                }
            }
            None
        }
        Cmd::MapEffect(k, x) => apply_law(law, x).map(|y| Cmd::MapEffect(*k, bx(y))),
        Cmd::MapEvent(k, x) => apply_law(law, x).map(|y| Cmd::MapEvent(*k, bx(y))),
        Cmd::IntoFrom(x) => apply_law(law, x).map(|y| Cmd::IntoFrom(bx(y))),
        Cmd::Abortable(h, x) => apply_law(law, x).map(|y| Cmd::Abortable(*h, bx(y))),
        _ => None,
    }
}

/// the transformed program, or None where the law does not apply to this shape
fn apply_law_here(law: &Law, c: &Cmd) -> Option<Cmd> {
    let b = |x: &Cmd| Box::new(x.clone());
    Some(match law {
        Law::DoneThen => Cmd::Then(Box::new(Cmd::Done), b(c)),
        Law::ThenDone => Cmd::Then(b(c), Box::new(Cmd::Done)),
        Law::AndDone => {
            if matches!(c, Cmd::Abortable(..)) {
                return None;
            }
            Cmd::And(b(c), Box::new(Cmd::Done))
        }
        Law::AllOne => Cmd::All(vec![c.clone()]),
        Law::MapEffectId => Cmd::MapEffect(IDENTITY, b(c)),
        Law::MapEventId => Cmd::MapEvent(IDENTITY, b(c)),
        Law::IntoFrom => Cmd::IntoFrom(b(c)),
        Law::AndCommute => match c {
            Cmd::And(x, y) if !matches!(**y, Cmd::Abortable(..)) => Cmd::And(y.clone(), x.clone()),
            _ => return None,
        },
        Law::AllPermute(seed) => match c {
            Cmd::All(xs) if xs.len() > 1 => {
                let mut v = xs.clone();
                Rng::new(*seed).shuffle(&mut v);
                Cmd::All(v)
            }
            _ => return None,
        },
        Law::ThenAssoc => match c {
            Cmd::Then(ab, cc) => match &**ab {
                Cmd::Then(a, bb) => Cmd::Then(a.clone(), Box::new(Cmd::Then(bb.clone(), cc.clone()))),
                _ => return None,
            },
            _ => return None,
        },
        Law::Layers(seed, k) => wrap_layers(c.clone(), *seed, *k),
    })
}

#[derive(Clone, Debug, Serialize, Deserialize)]
pub struct CmdScn {
    pub scn: Scenario,
    /// real-vs-real: the same script under a law-transformed program must observe the same
    pub law: Option<Law>,
    /// real-vs-real: the same script under other hosts must observe the same
    pub diff_hosts: Vec<HostSel>,
}

pub struct CmdCheck {
    pub id: &'static str,
    pub level: &'static str,
    pub hosts: &'static [HostSel],
    pub diff_hosts: &'static [HostSel],
    pub laws: bool,
    pub layers: bool,
    pub quiescence: bool,
    pub occupancy: bool,
    pub done: bool,
    pub buggify: bool,
    pub runs_quick: u64,
    pub runs_thorough: u64,
    pub tweak: fn(&mut GenCfg, &mut ScriptCfg, &mut Rng, HostSel),
    pub rule: &'static str,
    pub extra_assumptions: &'static [&'static str],
}

fn no_tweak(_: &mut GenCfg, _: &mut ScriptCfg, _: &mut Rng, _: HostSel) {}

impl CmdCheck {
    fn checks(&self) -> Checks {
        Checks { id: self.id, model: true, quiescence: self.quiescence, occupancy: self.occupancy, done: self.done }
    }
}

impl Check for CmdCheck {
    type Scn = CmdScn;

    fn id(&self) -> &'static str {
        self.id
    }
    fn level(&self) -> &'static str {
        self.level
    }
    fn rule(&self) -> String {
        self.rule.to_string()
    }
    fn assumptions(&self) -> Vec<String> {
        let mut v = vec![
            "task futures follow the Future contract (every poll re-registers the current waker)".to_string(),
            "per-step outputs are compared as multisets plus per-emitter order; polling order inside a call is not part of any property".to_string(),
            "the time at which aborted-but-not-yet-woken work is reaped is left open between the abort and the settle in which its last wait fires (candidate-set refinement)".to_string(),
            "runs whose outcome would depend on the order of two enabled transitions are discarded (counted under discarded_ambiguous), not judged".to_string(),
            "a clean batch is evidence over the sampled programs x schedules x fault sequences, not a proof".to_string(),
        ];
        v.extend(self.extra_assumptions.iter().map(|s| (*s).to_string()));
        v
    }
    fn components(&self) -> Value {
        json!({
            "real": ["crux_core::Command and its executor", "crux_core::Core", "QueuingExecutor", "Bridge / BridgeWithSerializer + registry", "crux_macros effect / derive(Effect) output", "serde, bincode, serde_json, erased-serde, futures, crossbeam-channel, slab"],
            "stub": ["app (interpreter app whose events carry generated programs)"],
            "simulated": ["shell: holds, reorders, delays, drops, duplicates and answers requests; aborts and drops commands and cores"],
        })
    }
    fn runs(&self, tier: Tier) -> u64 {
        match tier {
            Tier::Quick => self.runs_quick,
            Tier::Thorough => self.runs_thorough,
        }
    }

    fn generate(&self, rng: &mut Rng, tier: Tier) -> CmdScn {
        let thorough = tier == Tier::Thorough;
        let mut crng = rng.fork("cfg");
        let mut cfg = GenCfg::swarm(&mut crng, thorough);
        let host = *crng.pick(self.hosts);
        cfg.legacy = host.supports_legacy() && crng.chance(1, 2);
        let mut sc = ScriptCfg {
            max_steps: if thorough { crng.range(10, 120) as u32 } else { crng.range(6, 50) as u32 },
            max_batch: crng.range(1, 3) as u32,
            drops: crng.chance(3, 5),
            dups: crng.chance(2, 5),
            aborts: true,
            noops: crng.chance(1, 3),
            drop_roots: crng.chance(1, 5),
            drop_all: crng.chance(1, 8),
            order_bias: crng.below(3) as u8,
            stream_items: crng.range(1, 6) as u32,
        };
        (self.tweak)(&mut cfg, &mut sc, &mut crng, host);

        let mut xrng = rng.fork("extras");
        let law = if self.laws && xrng.chance(2, 3) {
            let laws = [
                Law::DoneThen,
                Law::ThenDone,
                Law::AndDone,
                Law::AllOne,
                Law::MapEffectId,
                Law::MapEventId,
                Law::IntoFrom,
                Law::AndCommute,
                Law::AllPermute(xrng.next_u64()),
                Law::ThenAssoc,
            ];
            Some(laws[xrng.usize_below(laws.len())].clone())
        } else if self.layers {
            let k = match xrng.below(10) {
                0 => 32,
                1 => 64,
                _ => xrng.range(1, if thorough { 12 } else { 6 }) as u32,
            };
            Some(Law::Layers(xrng.next_u64(), k))
        } else {
            None
        };

        let mut prng = rng.fork("programs");
        let nprog = prng.range(1, if thorough { 4 } else { 3 }) as usize;
        let mut programs = vec![];
        for i in 0..nprog {
            let mut g = ProgGen::new(&mut prng, cfg.clone(), (i as u32 + 1) * 1000);
            let d = g.cfg.max_depth;
            // structural laws need a matching shape somewhere: give the first program one at the top
            let p = match (&law, i) {
                (Some(Law::ThenAssoc), 0) => {
                    let (a, b, c) = (g.cmd(d.saturating_sub(1)), g.cmd(d.saturating_sub(1)), g.cmd(d.saturating_sub(1)));
                    Cmd::Then(Box::new(Cmd::Then(Box::new(a), Box::new(b))), Box::new(c))
                }
                (Some(Law::AndCommute), 0) => {
                    let (a, b) = (g.cmd(d.saturating_sub(1)), g.cmd(d.saturating_sub(1)));
                    if matches!(a, Cmd::Abortable(..)) || matches!(b, Cmd::Abortable(..)) {
                        Cmd::And(Box::new(Cmd::All(vec![a])), Box::new(Cmd::All(vec![b])))
                    } else {
                        Cmd::And(Box::new(a), Box::new(b))
                    }
                }
                (Some(Law::AllPermute(_)), 0) => {
                    let n = g.rng.range(2, 4) as usize;
                    Cmd::All((0..n).map(|_| g.cmd(d.saturating_sub(1))).collect())
                }
                _ => g.cmd(d),
            };
            programs.push(p);
        }
        let mut srng = rng.fork("script");
        let so = gen_script(&mut srng, programs.clone(), host, &sc);
        let buggify = self.buggify && xrng.chance(1, 2) && !programs.iter().any(Cmd::has_races);
        let mut diff_hosts = vec![];
        for h in self.diff_hosts {
            if *h != host {
                diff_hosts.push(*h);
            }
        }
        CmdScn {
            scn: Scenario { host, steps: so.steps, hash_seed: mix(xrng.next_u64(), 1), buggify, drain_from: so.drain_from },
            law,
            diff_hosts,
        }
    }

    fn hash_seed(&self, scn: &CmdScn) -> u64 {
        scn.scn.hash_seed
    }

    fn execute(&self, s: &CmdScn, cov: &mut Cov) -> Result<RunInfo, Violation> {
        let ck = self.checks();
        cov.bump(&format!("host:{:?}", s.scn.host));
        let base = run_scenario_on(&s.scn, s.scn.host, &ck, cov)?;
        if base.info.discarded {
            return Ok(base.info);
        }
        let has_abort = s.scn.steps.iter().flatten().any(|a| match a {
            Action::Event(Event::Run(c)) => c.has_races(),
            Action::Event(Event::Abort(_)) => true,
            _ => false,
        });
        let has_drops = s.scn.steps.iter().flatten().any(|a| matches!(a, Action::Drop { .. } | Action::DropRoot(_) | Action::DropAll));
        let nomodel = Checks { id: self.id, model: false, quiescence: false, occupancy: false, done: false };

        // model-free oracle 1: algebraic laws / wrapping layers, real vs real under the same script
        if let Some(law) = &s.law {
            let mut applies = false;
            let mut scn2 = s.scn.clone();
            scn2.buggify = false;
            for st in scn2.steps.iter_mut() {
                for a in st.iter_mut() {
                    if let Action::Event(Event::Run(c)) = a {
                        if let Some(c2) = apply_law(law, c) {
                            *c = c2;
                            applies = true;
                        }
                    }
                }
            }
            // dropping a root drops the wrapper too; DropRoot ids stay valid (same Run index)
            if applies && !(has_abort && matches!(law, Law::Layers(..)) && false) {
                cov.bump(&format!("law:{}", law_name(law)));
                let other = run_scenario_on(&scn2, s.scn.host, &nomodel, cov)?;
                compare_obs(self.id, &format!("law:{}", law_name(law)), &base.obs, &other.obs, !has_abort && self.done, !has_abort)?;
            }
        }
        // model-free oracle 2: host differential
        for h in &s.diff_hosts {
            if h.is_bridge() && has_drops {
                continue;
            }
            if !h.supports_legacy() && scenario_has_legacy(&s.scn) {
                continue;
            }
            cov.bump(&format!("diff_host:{h:?}"));
            let other = run_scenario_on(&s.scn, *h, &nomodel, cov)?;
            compare_obs(self.id, &format!("host:{:?}_vs_{:?}", s.scn.host, h), &base.obs, &other.obs, false, !has_abort)?;
        }
        Ok(base.info)
    }

    fn shrink(&self, s: &CmdScn) -> Vec<CmdScn> {
        let mut out: Vec<CmdScn> = shrink_scenario(&s.scn).into_iter().map(|scn| CmdScn { scn, ..s.clone() }).collect();
        if s.law.is_some() {
            out.push(CmdScn { law: None, ..s.clone() });
        }
        if let Some(Law::Layers(seed, k)) = &s.law {
            if *k > 1 {
                out.push(CmdScn { law: Some(Law::Layers(*seed, k / 2)), ..s.clone() });
                out.push(CmdScn { law: Some(Law::Layers(*seed, k - 1)), ..s.clone() });
            }
        }
        for i in 0..s.diff_hosts.len() {
            let mut d = s.diff_hosts.clone();
            d.remove(i);
            out.push(CmdScn { diff_hosts: d, ..s.clone() });
        }
        out
    }

    fn expected_probes(&self) -> Vec<&'static str> {
        vec![]
    }
}

fn scenario_has_legacy(s: &Scenario) -> bool {
    s.steps.iter().flatten().any(|a| matches!(a, Action::Event(Event::Run(c)) if c.has_legacy()))
}

fn law_name(l: &Law) -> &'static str {
    match l {
        Law::DoneThen => "done_then",
        Law::ThenDone => "then_done",
        Law::AndDone => "and_done",
        Law::AllOne => "all_one",
        Law::MapEffectId => "map_effect_id",
        Law::MapEventId => "map_event_id",
        Law::IntoFrom => "into_from",
        Law::AndCommute => "and_commute",
        Law::AllPermute(_) => "all_permute",
        Law::ThenAssoc => "then_assoc",
        Law::Layers(..) => "layers",
    }
}

type Obs = Vec<(crate::cmd::hosts::StepObs, Vec<crate::cmd::model::Outcome>)>;

/// `compare_outcomes`: off where aborted work may be reaped at different times under the two
/// hostings (the properties leave that open), which shows in whether a late stream item is accepted
fn compare_obs(id: &str, what: &str, a: &Obs, b: &Obs, compare_done: bool, compare_outcomes: bool) -> Result<(), Violation> {
    for (i, ((oa, ra), (ob, rb))) in a.iter().zip(b.iter()).enumerate() {
        if !effects_equal(&oa.effects, &ob.effects) {
            return Err(Violation::new(
                format!("{id}:{what}:effects"),
                format!("step {i}: effects differ between the two real executions: {:?} vs {:?}", oa.effects, ob.effects),
            ));
        }
        if !log_multiset_equal(&oa.new_log, &ob.new_log) {
            return Err(Violation::new(
                format!("{id}:{what}:events"),
                format!("step {i}: applied events differ between the two real executions: {:?} vs {:?}", oa.new_log, ob.new_log),
            ));
        }
        if compare_outcomes && ra != rb {
            return Err(Violation::new(
                format!("{id}:{what}:resolve_outcome"),
                format!("step {i}: resolve outcomes differ: {ra:?} vs {rb:?}"),
            ));
        }
        if compare_done {
            if let (Some(da), Some(db)) = (&oa.roots_done, &ob.roots_done) {
                if da != db {
                    return Err(Violation::new(format!("{id}:{what}:done"), format!("step {i}: is_done differs: {da:?} vs {db:?}")));
                }
            }
        }
    }
    if a.len() != b.len() {
        return Err(Violation::new(format!("{id}:{what}:length"), format!("executions have {} vs {} steps", a.len(), b.len())));
    }
    Ok(())
}

// ------------------------------------------------------------------------------------------------
// the checks

const RULE: &str = "programs are generated from a swarm-configured grammar (every Command combinator, builder chains, async tasks with spawn/join/abort/select/join_all, event continuations); the action script (resolve / stream item / drop / duplicate / late resolve / abort / drop command / drop core, then a fault-free drain phase) is generated by driving the reference model with the PRNG; a run is non-trivial when at least 2 requests were outstanding at once and at least one fault or out-of-order resolution fired; distinct = distinct hash of (host, program shapes without labels, action-kind trace)";

fn c04_tweak(cfg: &mut GenCfg, _sc: &mut ScriptCfg, _rng: &mut Rng, _h: HostSel) {
    cfg.legacy = false;
}

pub static C04: CmdCheck = CmdCheck {
    id: "C04",
    level: "exploration",
    hosts: &[HostSel::Direct],
    diff_hosts: &[],
    laws: true,
    layers: false,
    quiescence: false,
    occupancy: false,
    done: true,
    buggify: false,
    runs_quick: 60_000,
    runs_thorough: 2_000_000,
    tweak: c04_tweak,
    rule: RULE,
    extra_assumptions: &["two independent oracles: (1) reference semantics per step, (2) algebraic laws compared real-vs-real under the same script"],
};

#[allow(dead_code)]
pub fn unused() {
    let _ = no_tweak;
}
