pub mod c11;
pub mod c12;
pub mod cmdprops;
