pub mod cmdprops;
