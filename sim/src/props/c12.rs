//! C12: malformed input across the bridge. For each sampled valid history and each position in
//! it, every corruption kind is applied to the event or response that would have been sent
//! there (one fault per run copy), then the history continues. The bridge (bincode or JSON) is
//! compared step by step with a typed Core twin that receives what the harness's own decoder
//! makes of the same bytes (or nothing, if they do not decode).

use serde::{Deserialize, Serialize};
use serde_json::{json, Value};

use crate::cmd::driver::{effects_equal, log_multiset_equal};
use crate::cmd::gen::{gen_script, Action, GenCfg, ProgGen, Scenario, ScriptCfg};
use crate::cmd::hosts::{decode, encode, BridgeHost, CoreHost, Host, HostSel, Wire};
use crate::cmd::model::{OpName, Outcome, ReqKey};
use crate::cmd::ops::{app1, Event, OutB};
use crate::rng::{fnv, mix, Rng};
use crate::runner::{catch, Check, Cov, RunInfo, Tier, Violation};

#[derive(Clone, Debug, PartialEq, Eq, Serialize, Deserialize)]
pub enum Corruption {
    Truncate(usize),
    Extend(Vec<u8>),
    BitFlip(usize),
    /// overwrite 8 bytes at offset with a little-endian u64
    Len8(usize, u64),
    /// overwrite 4 bytes at offset 0 (variant index) with a u32
    Variant(u32),
    Replace(Vec<u8>),
    /// JSON: replace the n-th run of digits
    JsonNumber(usize, String),
    Empty,
}

impl Corruption {
    fn kind(&self) -> &'static str {
        match self {
            Corruption::Truncate(_) => "trunc",
            Corruption::Extend(_) => "extend",
            Corruption::BitFlip(_) => "bitflip",
            Corruption::Len8(..) => "lenfield",
            Corruption::Variant(_) => "variant",
            Corruption::Replace(_) => "random_or_wrongtype",
            Corruption::JsonNumber(..) => "json_number",
            Corruption::Empty => "empty",
        }
    }
    fn apply(&self, b: &[u8]) -> Vec<u8> {
        let mut v = b.to_vec();
        match self {
            Corruption::Truncate(n) => v.truncate(*n),
            Corruption::Extend(x) => v.extend(x),
            Corruption::BitFlip(i) => {
                if let Some(byte) = v.get_mut(i / 8) {
                    *byte ^= 1 << (i % 8);
                }
            }
            Corruption::Len8(off, val) => {
                if off + 8 <= v.len() {
                    v[*off..off + 8].copy_from_slice(&val.to_le_bytes());
                }
            }
            Corruption::Variant(x) => {
                if v.len() >= 4 {
                    v[..4].copy_from_slice(&x.to_le_bytes());
                }
            }
            Corruption::Replace(x) => v = x.clone(),
            Corruption::JsonNumber(n, with) => {
                let s = String::from_utf8_lossy(&v).to_string();
                let mut out = String::new();
                let mut k = 0;
                let mut chars = s.chars().peekable();
                while let Some(c) = chars.next() {
                    if c.is_ascii_digit() {
                        let mut run = String::from(c);
                        while let Some(d) = chars.peek() {
                            if d.is_ascii_digit() {
                                run.push(*d);
                                chars.next();
                            } else {
                                break;
                            }
                        }
                        if k == *n {
                            out.push_str(with);
                        } else {
                            out.push_str(&run);
                        }
                        k += 1;
                    } else {
                        out.push(c);
                    }
                }
                v = out.into_bytes();
            }
            Corruption::Empty => v.clear(),
        }
        v
    }
}

/// every corruption of `valid` that this check enumerates (deterministic in `seed`)
fn corruptions(valid: &[u8], wire: Wire, others: &[Vec<u8>], seed: u64) -> Vec<Corruption> {
    let mut rng = Rng::new(seed);
    let mut v = vec![Corruption::Empty];
    let n = valid.len();
    // every prefix up to 96 bytes, sampled beyond
    for k in 0..n.min(96) {
        v.push(Corruption::Truncate(k));
    }
    for _ in 0..8 {
        if n > 96 {
            v.push(Corruption::Truncate(rng.range(96, n as u64 - 1) as usize));
        }
    }
    for _ in 0..3 {
        let k = rng.range(1, 40) as usize;
        v.push(Corruption::Extend(rng.bytes(k)));
    }
    // every single-bit flip for short encodings, sampled beyond
    if n <= 48 {
        for i in 0..n * 8 {
            v.push(Corruption::BitFlip(i));
        }
    } else {
        for _ in 0..200 {
            v.push(Corruption::BitFlip(rng.below(n as u64 * 8) as usize));
        }
    }
    match wire {
        Wire::Bincode => {
            // length fields: every offset is a candidate; the replacement values of the design
            let offs: Vec<usize> = if n <= 72 { (0..n.saturating_sub(7)).collect() } else { (0..48).map(|_| rng.below(n as u64 - 7) as usize).collect() };
            for off in offs {
                let cur = u64::from_le_bytes(valid[off..off + 8].try_into().unwrap());
                for val in [0, cur.wrapping_add(1), cur.wrapping_sub(1), 1 << 31, 1 << 63, u64::MAX] {
                    v.push(Corruption::Len8(off, val));
                }
            }
            for x in [0u32, 1, 2, 3, 4, 5, 7, 255, 65536, u32::MAX] {
                v.push(Corruption::Variant(x));
            }
        }
        Wire::Json => {
            let digits = String::from_utf8_lossy(valid).chars().filter(char::is_ascii_digit).count();
            for k in 0..digits.min(12) {
                for with in ["18446744073709551616", "-1", "1e999", "0.5", "\"7\"", "null", "99999999999999999999999999999999"] {
                    v.push(Corruption::JsonNumber(k, with.to_string()));
                }
            }
            v.push(Corruption::Replace("[".repeat(100_000).into_bytes()));
            v.push(Corruption::Replace("{\"a\":".repeat(5_000).into_bytes()));
            v.push(Corruption::Replace(b"null".to_vec()));
            v.push(Corruption::Replace(b"\"\\ud800\"".to_vec()));
        }
    }
    // random strings
    for _ in 0..32 {
        let k = rng.range(1, 64) as usize;
        v.push(Corruption::Replace(rng.bytes(k)));
    }
    // valid bytes of the wrong type
    for o in others.iter().take(6) {
        v.push(Corruption::Replace(o.clone()));
    }
    v
}

#[derive(Clone, Debug, Serialize, Deserialize)]
pub struct Scn12 {
    pub base: Scenario,
    pub json: bool,
    /// None: enumerate every position x corruption; Some: only this one (set by the minimiser)
    pub only: Option<(usize, Corruption)>,
    pub seed: u64,
}

pub struct C12Check;
pub static C12: C12Check = C12Check;

fn viol(clause: &str, msg: String) -> Violation {
    Violation::new(format!("C12:{clause}"), msg)
}

/// flatten the script: one action per position
fn positions(s: &Scenario) -> Vec<Action> {
    s.steps.iter().flatten().cloned().collect()
}

enum Sent {
    Event(Event),
    Response { key: ReqKey, op: OpName },
}

/// run the history with `corrupt` applied at position `pos`. Returns the valid encodings seen
/// (used to enumerate) and whether anything interesting happened.
/// `drop_on_reject`: what the typed twin does with a one-shot whose response was rejected: the
/// statement allows the request to stay pending or to be abandoned ("affects at most the one
/// request"), so both twins are tried
fn run_one(s: &Scn12, pos: Option<(usize, &Corruption)>, cov: &mut Cov, valid_out: &mut Vec<(usize, Vec<u8>)>) -> Result<(), Violation> {
    match run_one_policy(s, pos, cov, valid_out, true) {
        Ok(()) => Ok(()),
        Err(e) if e.sig.contains("remainder_differs") => {
            let mut sink = vec![];
            match run_one_policy(s, pos, cov, &mut sink, false) {
                Ok(()) => {
                    cov.bump("probe:rejected_response_left_request_pending");
                    Ok(())
                }
                Err(_) => Err(e),
            }
        }
        Err(e) => Err(e),
    }
}

fn run_one_policy(s: &Scn12, pos: Option<(usize, &Corruption)>, cov: &mut Cov, valid_out: &mut Vec<(usize, Vec<u8>)>, drop_on_reject: bool) -> Result<(), Violation> {
    let wire = if s.json { Wire::Json } else { Wire::Bincode };
    let mut a = BridgeHost::<app1::App>::new(wire, if s.json { HostSel::BridgeJson } else { HostSel::BridgeBincode });
    let mut b = CoreHost::<app1::App>::new();
    let acts = positions(&s.base);
    // request poisoned by a rejected response: not touched again on either side
    let mut poisoned: Option<ReqKey> = None;
    // ... by this side; at the very end the shell tries once more under the same id (a corrected
    // response, or more garbage): whatever the bridge makes of it, it must return
    let mut retry: Option<(u32, Vec<u8>)> = None;
    for (i, act) in acts.iter().enumerate() {
        let (sent, valid) = match act {
            Action::Event(ev) => (Sent::Event(ev.clone()), encode(wire, ev)),
            Action::Resolve { site, arg, v } => {
                let key = (*site, *arg);
                if Some(key) == poisoned {
                    continue;
                }
                let Some((_, op)) = a.ids.get(&key).copied() else { continue };
                if !b.holds(key) {
                    continue;
                }
                (Sent::Response { key, op }, a.encode_output(op, *v))
            }
            _ => continue,
        };
        if pos.is_none() {
            valid_out.push((i, valid.clone()));
        }
        let corrupt_here = pos.filter(|(p, _)| *p == i).map(|(_, c)| c);
        let bytes = match corrupt_here {
            Some(c) => c.apply(&valid),
            None => valid.clone(),
        };
        if corrupt_here.is_some() && bytes == valid {
            return Ok(()); // the corruption is the identity on this encoding
        }
        let view_before = if corrupt_here.is_some() { a.bridge.view().ok() } else { None };
        let registry_before = Some(a.bridge.registry());
        let alloc0 = crate::alloc::requested();
        // the call under test
        let call = match &sent {
            Sent::Event(_) => catch(|| a.bridge.process_event(&bytes)),
            Sent::Response { key, .. } => {
                let id = a.ids.get(key).map(|x| x.0).unwrap();
                catch(|| a.bridge.handle_response(id, &bytes))
            }
        };
        let allocated = crate::alloc::requested() - alloc0;
        let what = || match corrupt_here {
            Some(c) => format!("position {i}, {} ({} -> {} bytes) on {wire:?}", c.kind(), valid.len(), bytes.len()),
            None => format!("position {i}, valid input on {wire:?}"),
        };
        let result = match call {
            Ok(r) => r,
            // a corrupted-but-decodable program can contain the simulator's own crash statement
            // (`Stmt::Fault`): that is app code panicking, not the bridge - the copy ends unjudged
            Err((_, msg)) if msg.contains("injected task fault") => {
                cov.bump("corrupted_program_crashes_by_itself");
                return Ok(());
            }
            Err((loc, msg)) => return Err(viol(&format!("panic:{loc}"), format!("{}: {msg}", what()))),
        };
        // never allocates without bound
        let bound = 8 * 1024 * 1024 + 64 * (bytes.len() as u64 + valid.len() as u64 + 4096);
        if allocated > bound {
            return Err(viol("unbounded_allocation", format!("{}: the call requested {allocated} bytes from the allocator (bound {bound})", what())));
        }
        // what the harness's own decoder makes of the same bytes
        enum Dec {
            Event(Event),
            A(u64),
            B(OutB),
            Unit,
            Fail,
        }
        let dec = match &sent {
            Sent::Event(_) => decode::<Event>(wire, &bytes).map_or(Dec::Fail, Dec::Event),
            Sent::Response { op: OpName::A, .. } => decode::<u64>(wire, &bytes).map_or(Dec::Fail, Dec::A),
            Sent::Response { op: OpName::B, .. } => decode::<OutB>(wire, &bytes).map_or(Dec::Fail, Dec::B),
            Sent::Response { op: OpName::Render, .. } => decode::<()>(wire, &bytes).map_or(Dec::Fail, |()| Dec::Unit),
        };
        let decodes = !matches!(dec, Dec::Fail);
        match (&result, decodes) {
            (Err(crux_core::bridge::BridgeError::DeserializeEvent(_) | crux_core::bridge::BridgeError::DeserializeOutput(_)), true) => {
                return Err(viol("valid_input_rejected", format!("{}: the bytes decode as the expected type but the bridge said: {}", what(), result.as_ref().err().unwrap())));
            }
            (Ok(_), false) => {
                return Err(viol("malformed_input_accepted", format!("{}: the bytes do not decode as the expected type but the bridge accepted them", what())));
            }
            _ => {}
        }
        if corrupt_here.is_some() {
            cov.bump(&format!("fault:{}", corrupt_here.unwrap().kind()));
            cov.bump(if decodes { "corrupted_but_still_decodes" } else { "corrupted_and_rejected" });
        }
        // mirror on the typed twin
        match (&sent, dec) {
            (Sent::Event(_), Dec::Event(ev)) => {
                // the decoded program may be anything: it still has to behave the same on both sides
                b.send_event(ev).map_err(|e| viol("twin_error", e))?;
            }
            (Sent::Event(_), _) => {
                // rejected event: the app is exactly as it was
                if let (Some(vb), Ok(va)) = (&view_before, a.bridge.view()) {
                    if *vb != va {
                        return Err(viol("rejected_event_changed_view", format!("{}: the view changed although the event was rejected", what())));
                    }
                }
                if let Some(rb) = &registry_before {
                    if *rb != a.bridge.registry() {
                        return Err(viol("rejected_event_changed_registry", format!("{}: registry entries changed although the event was rejected", what())));
                    }
                }
            }
            (Sent::Response { key, .. }, Dec::A(v)) => {
                let o = b.resolve(*key, v).map_err(|e| viol("twin_error", e))?;
                check_outcome(&result, o, &what)?;
                if result.is_ok() {
                    forget_if_consumed(&mut a, *key, &registry_before);
                }
            }
            (Sent::Response { key, .. }, Dec::B(out)) => {
                let o = b.resolve_b_raw(*key, out).unwrap_or(Ok(Outcome::Unknown)).map_err(|e| viol("twin_error", e))?;
                check_outcome(&result, o, &what)?;
                if result.is_ok() {
                    forget_if_consumed(&mut a, *key, &registry_before);
                }
            }
            (Sent::Response { key, .. }, Dec::Unit) => {
                // a notification: rejected on both sides
                let _ = key;
            }
            (Sent::Response { key, .. }, Dec::Fail) => {
                // a rejected response affects at most the request it was addressed to. A one-shot is
                // not touched again; a stream whose consumer is alive goes on accepting items (C02),
                // the undecodable one is simply not delivered
                let id = a.ids.get(key).map(|x| x.0);
                let was_many = registry_before.as_ref().is_some_and(|r| r.iter().any(|e| Some(e.0) == id && e.1 == crux_core::verif::EntryKind::Many));
                if !was_many {
                    poisoned = Some(*key);
                    if let Some(id) = id {
                        retry = Some((id, valid.clone()));
                    }
                    a.ids.remove(key);
                    if drop_on_reject {
                        b.drop_req(*key);
                    }
                }
            }
            (Sent::Response { .. }, Dec::Event(_)) => unreachable!(),
        }
        // whatever the outcome, a response makes the registry forget a one-shot or notification entry
        if let Sent::Response { key, .. } = &sent {
            if a.ids.contains_key(key) {
                forget_if_consumed(&mut a, *key, &registry_before);
            }
        }
        if let Ok(out) = &result {
            a.absorb_bytes(out).map_err(|e| viol("output_not_decodable", format!("{}: {e}", what())))?;
        }
        // both sides must now observe the same
        let oa = a.settle();
        let ob = b.settle();
        if !a.dup_keys.is_empty() || !b.shelf.dup_keys.is_empty() {
            // a corrupted-but-decodable program issued two requests the simulated shell cannot tell
            // apart: the rest of this copy cannot be judged
            cov.bump("unjudgeable_duplicate_request_keys");
            return Ok(());
        }
        if let Some(e) = a.take_errors().into_iter().next() {
            return Err(viol("bridge_invariant", format!("{}: {e}", what())));
        }
        if !effects_equal(&oa.effects, &ob.effects) {
            let clause = if corrupt_here.is_some() || pos.is_some_and(|(p, _)| i > p) { "remainder_differs:effects" } else { "twin_differs:effects" };
            return Err(viol(clause, format!("at position {i} (corruption at {:?}) the bridge returned {:?}, the typed twin {:?}", pos.map(|p| p.0), oa.effects, ob.effects)));
        }
        if !log_multiset_equal(&oa.new_log, &ob.new_log) {
            let clause = if corrupt_here.is_some() || pos.is_some_and(|(p, _)| i > p) { "remainder_differs:events" } else { "twin_differs:events" };
            return Err(viol(clause, format!("at position {i} (corruption at {:?}) the bridge applied {:?}, the typed twin {:?}", pos.map(|p| p.0), oa.new_log, ob.new_log)));
        }
        cov.bump("sim_steps");
        if std::env::var("VERIF_DEBUG").is_ok() {
            eprintln!("pos {i}: decodes={decodes} result_ok={} ids={:?} effects={:?}", result.is_ok(), a.ids, oa.effects);
        }
    }
    if let Some((id, bytes)) = retry {
        cov.bump("fault:second_response_after_rejected_one");
        for attempt in [bytes.clone(), vec![0xff], bytes] {
            if let Err((loc, msg)) = catch(|| a.bridge.handle_response(id, &attempt)) {
                return Err(viol(&format!("panic:{loc}"), format!("a further response under the id of a one-shot whose first response had been rejected: {msg}")));
            }
        }
        // and the bridge is still usable
        let noop = encode(wire, &Event::Noop);
        match catch(|| a.bridge.process_event(&noop)) {
            Err((loc, msg)) => return Err(viol(&format!("panic:{loc}"), format!("an event after that: {msg}"))),
            Ok(Err(e)) => return Err(viol("valid_input_rejected", format!("an event after a retried response: {e}"))),
            Ok(Ok(_)) => {}
        }
    }
    Ok(())
}

fn check_outcome(result: &Result<Vec<u8>, crux_core::bridge::BridgeError>, twin: Outcome, what: &dyn Fn() -> String) -> Result<(), Violation> {
    let real = match result {
        Ok(_) => Outcome::Accepted,
        Err(crux_core::bridge::BridgeError::ProcessResponse(_)) => Outcome::Rejected,
        Err(e) => return Err(viol("valid_input_rejected", format!("{}: {e}", what()))),
    };
    if twin != Outcome::Unknown && real != twin {
        return Err(viol("resolve_outcome", format!("{}: bridge {real:?}, typed twin {twin:?}", what())));
    }
    Ok(())
}

fn forget_if_consumed(a: &mut BridgeHost<app1::App>, key: ReqKey, before: &Option<Vec<(u32, crux_core::verif::EntryKind)>>) {
    let Some((id, _)) = a.ids.get(&key).copied() else { return };
    let was_once = match before {
        // any response consumes a one-shot and makes the registry forget a notification entry
        Some(b) => b.iter().any(|e| e.0 == id && e.1 != crux_core::verif::EntryKind::Many),
        None => !a.bridge.registry().iter().any(|e| e.0 == id && e.1 == crux_core::verif::EntryKind::Many),
    };
    if was_once {
        a.ids.remove(&key);
    }
}

impl Check for C12Check {
    type Scn = Scn12;
    fn id(&self) -> &'static str {
        "C12"
    }
    fn level(&self) -> &'static str {
        "fault_enumeration"
    }
    fn rule(&self) -> String {
        "for each sampled valid history (generated programs over the bincode or the JSON bridge, events and out-of-order responses) and EACH position in it, the corruption kinds are enumerated on the event or response sent there: every prefix truncation (<= 96 bytes, sampled beyond), every single-bit flip (encodings <= 48 bytes, 200 sampled beyond), every 8-byte window overwritten with 0 / len+1 / len-1 / 2^31 / 2^63 / u64::MAX (bincode), variant index swaps, JSON number replacements (2^64, -1, 1e999, fraction, string, null, 32 digits), 100k-deep nesting, 32 random strings, extensions, valid bytes of another type, empty input; one fault per run copy, then the history continues; evaluations counts sampled histories, faults_injected counts executed corruptions per kind; a history is non-trivial when it has >= 2 positions with a response; distinct = distinct hash of (wire, program shapes, action kinds)".to_string()
    }
    fn assumptions(&self) -> Vec<String> {
        vec![
            "whether an input should be accepted is decided by decoding the same bytes with the harness's own decoder configured like the bridge (bincode fixint with trailing bytes allowed; serde_json without the end-of-input check); trusted: serde, bincode, serde_json".into(),
            "the typed Core twin (itself judged against the reference model by C01/C09) receives the decoded value or, for undecodable input, nothing; after a rejected response the addressed request is not touched again on either side".into(),
            "ids are always ids of outstanding requests (the property's domain)".into(),
            "allocation bound per call: 8 MiB + 64 x (input length + 4 KiB), measured with a counting global allocator".into(),
        ]
    }
    fn components(&self) -> Value {
        json!({"real": ["crux_core Bridge / BridgeWithSerializer / registry / request_serde", "bincode, serde_json, erased-serde", "typed Core as twin"], "stub": ["interpreter app"], "simulated": ["shell sending corrupted bytes"]})
    }
    fn runs(&self, tier: Tier) -> u64 {
        match tier {
            Tier::Quick => 3_000,
            Tier::Thorough => 150_000,
        }
    }
    fn wall_cap_s(&self, tier: Tier) -> u64 {
        match tier {
            Tier::Quick => 120,
            Tier::Thorough => 1500,
        }
    }

    fn generate(&self, rng: &mut Rng, tier: Tier) -> Scn12 {
        let json = rng.chance(1, 2);
        let host = if json { HostSel::BridgeJson } else { HostSel::BridgeBincode };
        let mut crng = rng.fork("cfg");
        let mut cfg = GenCfg::swarm(&mut crng, false);
        cfg.max_depth = cfg.max_depth.min(2);
        cfg.op_b = true;
        cfg.legacy = crng.chance(1, 3);
        cfg.abort_cmd = false;
        cfg.abort_task = false;
        cfg.select = false;
        let sc = ScriptCfg {
            max_steps: crng.range(2, if tier == Tier::Thorough { 10 } else { 7 }) as u32,
            max_batch: 1,
            drops: false,
            bridge_drops: false,
            bad_items: false,
            dups: false,
            aborts: false,
            noops: crng.chance(1, 3),
            drop_roots: false,
            drop_all: false,
            order_bias: crng.below(3) as u8,
            stream_items: 2,
            force_batch1: true,
            bridge_dups: false,
            abort_before_poll: false,
            legacy_drops: false,
        };
        let mut prng = rng.fork("programs");
        let np = prng.range(1, 2) as usize;
        let mut programs = vec![];
        for i in 0..np {
            let mut g = ProgGen::new(&mut prng, cfg.clone(), (i as u32 + 1) * 1000);
            g.budget = 12;
            let d = g.cfg.max_depth;
            programs.push(g.cmd(d));
        }
        let mut srng = rng.fork("script");
        let so = gen_script(&mut srng, programs, host, &sc);
        let steps: Vec<Vec<Action>> = so.steps.into_iter().take(so.drain_from + 3).collect();
        Scn12 {
            base: Scenario { host, steps, hash_seed: 0, buggify: false, drain_from: 0, adaptive_drain: false, defer_drops: false, bridge_dups: false, legacy_drops: false },
            json,
            only: None,
            seed: rng.next_u64(),
        }
    }

    fn execute(&self, s: &Scn12, cov: &mut Cov) -> Result<RunInfo, Violation> {
        // 1. the valid history itself must agree with the twin, and yields the encodings
        let mut valid = vec![];
        run_one(s, None, cov, &mut valid)?;
        let acts = positions(&s.base);
        let mut shape = fnv(if s.json { b"json" } else { b"bincode" });
        for a in &acts {
            shape = mix(shape, fnv(a.kind().as_bytes()));
            if let Action::Event(Event::Run(c)) = a {
                shape = mix(shape, crate::cmd::driver::shape_of_cmd(c));
            }
        }
        let responses = acts.iter().filter(|a| matches!(a, Action::Resolve { .. })).count();
        // 2. enumerate
        let wire = if s.json { Wire::Json } else { Wire::Bincode };
        if let Some((p, c)) = &s.only {
            let mut sink = vec![];
            run_one(s, Some((*p, c)), cov, &mut sink)?;
        } else {
            for (p, v) in &valid {
                // "valid bytes of the wrong type": responses where an event is due and vice versa
                let is_event = matches!(acts.get(*p), Some(Action::Event(_)));
                let others: Vec<Vec<u8>> = valid
                    .iter()
                    .filter(|o| o.1 != *v && matches!(acts.get(o.0), Some(Action::Event(_))) != is_event)
                    .map(|o| o.1.clone())
                    .collect();
                for c in corruptions(v, wire, &others, mix(s.seed, *p as u64)) {
                    let mut sink = vec![];
                    run_one(s, Some((*p, &c)), cov, &mut sink).map_err(|e| Violation::new(e.sig, format!("[corruption {:?} at position {p}] {}", short_c(&c), e.msg)))?;
                    cov.bump("corruptions_enumerated");
                }
            }
        }
        Ok(RunInfo { shape, nontrivial: responses >= 2, discarded: false })
    }

    fn shrink(&self, s: &Scn12) -> Vec<Scn12> {
        let mut out = vec![];
        if s.only.is_none() {
            // pin the failing corruption
            let wire = if s.json { Wire::Json } else { Wire::Bincode };
            let mut valid = vec![];
            let mut cov = Cov::default();
            if run_one(s, None, &mut cov, &mut valid).is_ok() {
                let acts = positions(&s.base);
                for (p, v) in &valid {
                    let is_event = matches!(acts.get(*p), Some(Action::Event(_)));
                    let others: Vec<Vec<u8>> = valid
                        .iter()
                        .filter(|o| o.1 != *v && matches!(acts.get(o.0), Some(Action::Event(_))) != is_event)
                        .map(|o| o.1.clone())
                        .collect();
                    for c in corruptions(v, wire, &others, mix(s.seed, *p as u64)) {
                        out.push(Scn12 { only: Some((*p, c)), ..s.clone() });
                    }
                }
            }
            return out;
        }
        let (p, c) = s.only.clone().unwrap();
        let acts = positions(&s.base);
        // cut the history after the corruption, then before it
        if p + 1 < acts.len() {
            let steps: Vec<Vec<Action>> = acts[..=p].iter().map(|a| vec![a.clone()]).collect();
            out.push(Scn12 { base: Scenario { steps, ..s.base.clone() }, ..s.clone() });
        }
        for i in 0..p {
            let mut v: Vec<Vec<Action>> = acts.iter().map(|a| vec![a.clone()]).collect();
            v.remove(i);
            out.push(Scn12 { base: Scenario { steps: v, ..s.base.clone() }, only: Some((p - 1, c.clone())), ..s.clone() });
        }
        for i in 0..acts.len() {
            if let Action::Event(Event::Run(cmd)) = &acts[i] {
                for c2 in crate::cmd::shrink::shrink_cmd(cmd) {
                    let mut v: Vec<Vec<Action>> = acts.iter().map(|a| vec![a.clone()]).collect();
                    v[i] = vec![Action::Event(Event::Run(c2))];
                    out.push(Scn12 { base: Scenario { steps: v, ..s.base.clone() }, ..s.clone() });
                }
            }
        }
        out
    }
}

fn short_c(c: &Corruption) -> String {
    let s = format!("{c:?}");
    s.chars().take(80).collect()
}
