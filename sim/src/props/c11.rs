//! C11: the core is a deterministic function of its input history. One generated history (HTTP
//! requests with several headers, key-value and time operations, renders, out-of-order answers) is
//! replayed against fresh cores under varied seams - different hash-map seeds, a skewed and a
//! counted clock, different threads, perturbed heap, and (sampled) a separate process - and the
//! serialized effect batches and views must be byte-identical up to the numbering of timer ids.
//! Second oracle: values the API hands out compare equal exactly when their contents are equal.

use std::sync::atomic::Ordering;
use std::time::Duration;

use bincode::Options as _;
use crux_core::bridge::Bridge;
use crux_core::{Command, Core};
use crux_http::protocol::{HttpHeader, HttpResponse, HttpResult};
use crux_kv::{KeyValueResponse, KeyValueResult};
use crux_time::{TimeRequest, TimeResponse, TimerId};
use serde::{Deserialize, Serialize};
use serde_json::{json, Value};

use crate::cmd::hosts::bincode_opts;
use crate::rng::{fnv, mix, Rng};
use crate::runner::{catch, Check, Cov, RunInfo, Tier, Violation};

#[derive(Clone, Copy, Debug, PartialEq, Eq, Serialize, Deserialize)]
pub enum DApi {
    Command,
    Legacy,
}

#[derive(Clone, Debug, PartialEq, Eq, Serialize, Deserialize)]
pub enum DEvent {
    Http { id: u32, api: DApi, headers: Vec<(String, String)>, post: bool },
    Kv { id: u32, api: DApi, key: String },
    Timer { id: u32, api: DApi, ms: u64 },
    /// a timer with an absolute deadline, `offset_s` seconds from the epoch of the simulated wall clock
    /// (so it lies before "now" in some replays and after it in others)
    TimerAt { id: u32, api: DApi, offset_s: i64 },
    /// the app clears the k-th timer handle it still holds (command API)
    ClearTimer { k: u8 },
    Render,
    Got { id: u32, text: String },
}

#[derive(Default)]
pub struct DModel {
    log: Vec<(u32, String)>,
    handles: Vec<crux_time::command::TimerHandle>,
}

#[derive(crux_core::macros::Effect)]
pub struct DCaps {
    pub http: crux_http::Http<DEvent>,
    pub key_value: crux_kv::KeyValue<DEvent>,
    pub time: crux_time::Time<DEvent>,
    pub render: crux_core::render::Render<DEvent>,
}

#[derive(Default)]
pub struct DApp;

/// epoch of the simulated wall clock (seconds since 1970): replay A reads this time, replay B this
/// time plus the scenario's skew
pub const SIM_EPOCH_S: i64 = 1_700_000_000;

fn deadline(offset_s: i64) -> std::time::SystemTime {
    std::time::SystemTime::UNIX_EPOCH + Duration::from_secs((SIM_EPOCH_S + offset_s).max(0) as u64)
}

/// headers grouped by name in first-appearance order; a repeated name carries all its values, in order
fn grouped(headers: &[(String, String)]) -> Vec<(String, Vec<crux_http::http::headers::HeaderValue>)> {
    let mut out: Vec<(String, Vec<crux_http::http::headers::HeaderValue>)> = vec![];
    for (n, v) in headers {
        let Ok(hv) = v.parse::<crux_http::http::headers::HeaderValue>() else { continue };
        match out.iter_mut().find(|g| g.0 == *n) {
            Some(g) => g.1.push(hv),
            None => out.push((n.clone(), vec![hv])),
        }
    }
    out
}

fn http_text(r: crux_http::Result<crux_http::Response<Vec<u8>>>) -> String {
    match r {
        Ok(mut resp) => {
            // (the order in which a response's headers are iterated is judged separately, see below)
            let mut hs: Vec<String> = resp.iter().flat_map(|(n, vs)| vs.iter().map(move |v| format!("{n}={v}"))).collect();
            hs.sort();
            format!("{} {:?} {:?}", resp.status(), hs, resp.take_body().map(|b| b.len()))
        }
        Err(e) => format!("error {e}"),
    }
}

impl crux_core::App for DApp {
    type Event = DEvent;
    type Model = DModel;
    type ViewModel = Vec<(u32, String)>;
    type Capabilities = DCaps;
    type Effect = Effect;

    fn update(&self, event: DEvent, model: &mut DModel, caps: &DCaps) -> Command<Effect, DEvent> {
        match event {
            DEvent::Got { id, text } => {
                model.log.push((id, text));
                crux_core::render::render()
            }
            DEvent::Render => crux_core::render::render(),
            DEvent::Http { id, api: DApi::Command, headers, post } => {
                use crux_http::command::Http;
                let url = format!("https://det.test/r/{id}");
                let mut b = if post { Http::<Effect, DEvent>::post(&url).body_string(format!("body {id}")) } else { Http::<Effect, DEvent>::get(&url) };
                for (n, vs) in grouped(&headers) {
                    b = b.header(n.as_str(), &vs[..]);
                }
                b.build().then_send(move |r| DEvent::Got { id, text: http_text(r) })
            }
            DEvent::Http { id, api: DApi::Legacy, headers, post } => {
                let url = format!("https://det.test/r/{id}");
                let mut b = if post { caps.http.post(&url).body_string(format!("body {id}")) } else { caps.http.get(&url) };
                for (n, vs) in grouped(&headers) {
                    b = b.header(n.as_str(), &vs[..]);
                }
                b.send(move |r| DEvent::Got { id, text: http_text(r) });
                Command::done()
            }
            DEvent::Kv { id, api: DApi::Command, key } => {
                crux_kv::command::KeyValue::<Effect, DEvent>::get(key).then_send(move |r| DEvent::Got { id, text: format!("{r:?}") })
            }
            DEvent::Kv { id, api: DApi::Legacy, key } => {
                caps.key_value.get(key, move |r| DEvent::Got { id, text: format!("{r:?}") });
                Command::done()
            }
            DEvent::Timer { id, api: DApi::Command, ms } => {
                let (b, h) = crux_time::command::Time::<Effect, DEvent>::notify_after(Duration::from_millis(ms));
                model.handles.push(h);
                b.then_send(move |o| DEvent::Got { id, text: format!("timer {}", matches!(o, crux_time::command::TimerOutcome::Completed(_))) })
            }
            DEvent::TimerAt { id, api: DApi::Command, offset_s } => {
                let (b, h) = crux_time::command::Time::<Effect, DEvent>::notify_at(deadline(offset_s));
                model.handles.push(h);
                b.then_send(move |o| DEvent::Got { id, text: format!("timer at {}", matches!(o, crux_time::command::TimerOutcome::Completed(_))) })
            }
            DEvent::TimerAt { id, api: DApi::Legacy, offset_s } => {
                caps.time.notify_at(deadline(offset_s), move |r| DEvent::Got {
                    id,
                    text: format!("legacy timer at {}", matches!(r, TimeResponse::InstantArrived { .. })),
                });
                Command::done()
            }
            DEvent::ClearTimer { k } => {
                if !model.handles.is_empty() {
                    let h = model.handles.remove(k as usize % model.handles.len());
                    h.clear();
                }
                Command::done()
            }
            DEvent::Timer { id, api: DApi::Legacy, ms } => {
                caps.time.notify_after(Duration::from_millis(ms), move |r| DEvent::Got {
                    id,
                    text: format!("legacy timer {}", matches!(r, TimeResponse::DurationElapsed { .. })),
                });
                Command::done()
            }
        }
    }

    fn view(&self, model: &DModel) -> Vec<(u32, String)> {
        model.log.clone()
    }
}

#[derive(Clone, Debug, Serialize, Deserialize)]
pub enum DStep {
    Event(DEvent),
    /// `n` directly held timer commands, each answered and cleared between two polls
    DirectTimers { n: u8, at: bool },
    /// a history of generated command programs driven through the bincode bridge: the serialized
    /// effect batches (byte for byte, order included) and the applied events must replay identically
    CmdHistory(Box<crate::cmd::gen::Scenario>),
    /// answer the k-th outstanding request (modulo), payload chosen by its type
    Answer { k: u8, status: u16, resp_headers: Vec<(String, String)>, value: Vec<u8> },
}

#[derive(Clone, Debug, Serialize, Deserialize)]
pub struct Scn11 {
    pub steps: Vec<DStep>,
    pub hash_seed_a: u64,
    pub hash_seed_b: u64,
    pub skew_ms: i64,
    /// also compare with a run in a separate process
    pub cross_process: bool,
    /// pairs for the equality oracle
    pub eq_cases: Vec<EqCase>,
}

#[derive(Clone, Debug, PartialEq, Eq, Serialize, Deserialize)]
pub struct EqCase {
    pub status: u16,
    pub headers: Vec<(String, String)>,
    pub body: Vec<u8>,
    /// permutation seed for the second instance
    pub perm: u64,
    pub differ: Differ,
}

#[derive(Clone, Debug, PartialEq, Eq, Serialize, Deserialize)]
pub enum Differ {
    Nothing,
    Status,
    HeaderName(usize),
    HeaderValue(usize),
    ExtraHeader,
    MissingHeader(usize),
    Body,
    /// one header name with two values on both sides; only the second value differs
    LaterValue,
}

pub struct C11Check;
pub static C11: C11Check = C11Check;

fn viol(clause: &str, msg: String) -> Violation {
    Violation::new(format!("C11:{clause}"), msg)
}

/// renumber timer ids in order of first appearance, then re-encode
fn normalise(bytes: &[u8], map: &mut Vec<usize>, outstanding: &mut Vec<(u32, EffectFfi)>) -> Result<Vec<u8>, String> {
    let mut reqs: Vec<crux_core::bridge::Request<EffectFfi>> = bincode_opts().deserialize(bytes).map_err(|e| e.to_string())?;
    for r in reqs.iter_mut() {
        // the shell keeps the original for answering
        let original = bincode_opts().serialize(&r.effect).unwrap();
        let keep: EffectFfi = bincode_opts().deserialize(&original).unwrap();
        if !matches!(keep, EffectFfi::Render(_)) {
            outstanding.push((r.id.0, keep));
        }
        if let EffectFfi::Time(t) = &mut r.effect {
            let id = match t {
                TimeRequest::NotifyAt { id, .. } | TimeRequest::NotifyAfter { id, .. } | TimeRequest::Clear { id } => Some(id),
                TimeRequest::Now => None,
            };
            if let Some(id) = id {
                let pos = match map.iter().position(|x| *x == id.0) {
                    Some(p) => p,
                    None => {
                        map.push(id.0);
                        map.len() - 1
                    }
                };
                *id = TimerId(pos);
            }
        }
    }
    Ok(bincode_opts().serialize(&reqs).unwrap())
}

/// one replay of the history against a fresh core; returns the observable byte strings
pub fn trial(steps: &[DStep]) -> Result<Vec<Vec<u8>>, Violation> {
    let bridge: Bridge<DApp> = Bridge::new(Core::new());
    let mut out = vec![];
    let mut timer_map = vec![];
    let mut outstanding: Vec<(u32, EffectFfi)> = vec![];
    for (si, st) in steps.iter().enumerate() {
        let clock0 = crate::seams::CLOCK_CALLS.load(Ordering::SeqCst);
        let rnd0 = crate::seams::GETRANDOM_CALLS.load(Ordering::SeqCst);
        let res = match st {
            DStep::CmdHistory(scn) => {
                use crate::cmd::gen::Action;
                let mut host = crate::cmd::hosts::make_host(scn.host);
                for step in &scn.steps {
                    for a in step {
                        match a {
                            Action::Event(ev) => {
                                let _ = host.send_event(ev.clone());
                            }
                            Action::Resolve { site, arg, v } => {
                                if host.holds((*site, *arg)) {
                                    let _ = host.resolve((*site, *arg), *v);
                                }
                            }
                            _ => {}
                        }
                    }
                    let obs = host.settle();
                    out.extend(host.take_raw());
                    out.push(format!("{:?}", obs.new_log).into_bytes());
                }
                continue;
            }
            DStep::DirectTimers { n, at } => {
                let mut d = String::new();
                for i in 0..*n {
                    d.push_str(&crate::cap::time::direct_answer_and_clear(u32::from(i) + 1, *at));
                    d.push(';');
                }
                out.push(d.into_bytes());
                continue;
            }
            DStep::Event(ev) => {
                let bytes = bincode_opts().serialize(ev).unwrap();
                catch(|| bridge.process_event(&bytes))
            }
            DStep::Answer { k, status, resp_headers, value } => {
                if outstanding.is_empty() {
                    continue;
                }
                let (id, eff) = outstanding.remove(*k as usize % outstanding.len());
                let bytes = match &eff {
                    EffectFfi::Http(_) => {
                        let resp = HttpResult::Ok(HttpResponse {
                            status: *status,
                            headers: resp_headers.iter().map(|(n, v)| HttpHeader { name: n.clone(), value: v.clone() }).collect(),
                            body: value.clone(),
                        });
                        // Ok variant: index 0, then the response (see cap::http for why not Serialize)
                        let HttpResult::Ok(r) = &resp else { unreachable!() };
                        let mut b = 0u32.to_le_bytes().to_vec();
                        b.extend(bincode_opts().serialize(r).unwrap());
                        b
                    }
                    EffectFfi::KeyValue(_) => bincode_opts()
                        .serialize(&KeyValueResult::Ok { response: KeyValueResponse::Get { value: value.clone().into() } })
                        .unwrap(),
                    EffectFfi::Time(t) => {
                        let resp = match t {
                            TimeRequest::NotifyAfter { id, .. } => TimeResponse::DurationElapsed { id: *id },
                            TimeRequest::NotifyAt { id, .. } => TimeResponse::InstantArrived { id: *id },
                            TimeRequest::Clear { id } => TimeResponse::Cleared { id: *id },
                            TimeRequest::Now => TimeResponse::Now { instant: crux_time::Instant::new(1, 0) },
                        };
                        bincode_opts().serialize(&resp).unwrap()
                    }
                    EffectFfi::Render(_) => continue,
                };
                catch(|| bridge.handle_response(id, &bytes))
            }
        };
        let clock1 = crate::seams::CLOCK_CALLS.load(Ordering::SeqCst);
        let rnd1 = crate::seams::GETRANDOM_CALLS.load(Ordering::SeqCst);
        let _ = (rnd0, rnd1);
        if clock1 != clock0 {
            return Err(viol("clock_read", format!("step {si}: {} clock reads happened during a core call", clock1 - clock0)));
        }
        match res {
            Err((loc, msg)) => return Err(viol(&format!("panic:{loc}"), format!("step {si}: {msg}"))),
            Ok(Err(e)) => out.push(format!("ERR {e}").into_bytes()),
            Ok(Ok(bytes)) => out.push(normalise(&bytes, &mut timer_map, &mut outstanding).map_err(|e| viol("undecodable", e))?),
        }
        match bridge.view() {
            Ok(v) => out.push(v),
            Err(e) => out.push(format!("VIEW ERR {e}").into_bytes()),
        }
    }
    Ok(out)
}

pub fn digest(outs: &[Vec<u8>]) -> u64 {
    let mut h = 0u64;
    for o in outs {
        h = mix(h, fnv(o));
    }
    h
}

fn trial_on_thread(steps: Vec<DStep>, hash_seed: u64, skew_ns: i64, junk: usize) -> Result<Vec<Vec<u8>>, Violation> {
    crate::runner::set_hash_seed(hash_seed);
    crate::seams::CLOCK_SKEW_NS.store(skew_ns, Ordering::SeqCst);
    crate::seams::CLOCK_ABS_NS.store(SIM_EPOCH_S * 1_000_000_000, Ordering::SeqCst);
    let h = std::thread::Builder::new()
        .stack_size(16 << 20)
        .spawn(move || {
            // perturb heap addresses
            let _junk: Vec<Vec<u8>> = (0..junk).map(|i| vec![0u8; 16 + (i * 37) % 4000]).collect();
            crate::runner::catch(|| trial(&steps))
        })
        .expect("spawn");
    let r = h.join().map_err(|_| viol("harness", "trial thread died".into()))?;
    crate::seams::CLOCK_SKEW_NS.store(0, Ordering::SeqCst);
    crate::seams::CLOCK_ABS_NS.store(0, Ordering::SeqCst);
    match r {
        Ok(x) => x,
        Err((loc, msg)) => Err(viol(&format!("panic:{loc}"), msg)),
    }
}

fn build_response(status: u16, headers: &[(String, String)], body: &[u8]) -> Option<crux_http::Response<Vec<u8>>> {
    let st = crux_http::http::StatusCode::try_from(status).ok()?;
    let mut b = crux_http::testing::ResponseBuilder::with_status(st).body(body.to_vec());
    let mut seen: Vec<&str> = vec![];
    let mut later: Vec<(&str, &str)> = vec![];
    for (n, v) in headers {
        if seen.contains(&n.as_str()) {
            // a repeated name carries several values, in order
            later.push((n.as_str(), v.as_str()));
        } else {
            seen.push(n.as_str());
            b = b.header(n.as_str(), v.as_str());
        }
    }
    let mut r = b.build();
    for (n, v) in later {
        r.append_header(n, v);
    }
    Some(r)
}

fn gen_header_set(rng: &mut Rng, n: usize) -> Vec<(String, String)> {
    let names = ["accept", "x-a", "x-b", "authorization", "x-trace", "cache-control", "x-c", "user-agent", "x-d", "x-e"];
    let mut idx: Vec<usize> = (0..names.len()).collect();
    rng.shuffle(&mut idx);
    idx.into_iter().take(n).map(|i| (names[i].to_string(), format!("v{}", rng.below(1000)))).collect()
}

impl Check for C11Check {
    type Scn = Scn11;
    fn id(&self) -> &'static str {
        "C11"
    }
    fn rule(&self) -> String {
        "histories of 2-14 events over a full app (HTTP requests with 0-8 headers through the command and the legacy API, key-value gets, timers, renders) with out-of-order answers; each history is replayed on fresh cores under two different hash-map seeds (interposed getrandom), on different threads, with a perturbed heap, a skewed wall clock (interposed clock_gettime) and, for 1 run in 40, in a separate process; all serialized effect batches and views must be byte-identical after renumbering timer ids by first appearance, and the clock-read counter must not move during core calls; second oracle: pairs of crux_http::Response values with equal content (permuted insertion order, distinct map instances) must compare ==, pairs differing in exactly one component must compare !=; a run is non-trivial when some HTTP request carried >= 2 headers and >= 2 requests were outstanding at once; distinct = distinct hash of (event kinds, header counts, answer order)".to_string()
    }
    fn assumptions(&self) -> Vec<String> {
        vec![
            "hash seeds are owned through the interposed getrandom symbol: std's RandomState keys are a pure function of the seed the simulator sets for each fresh thread; separate processes are additionally sampled (1 in 40 runs)".into(),
            "memory addresses are varied by heap perturbation and different threads, not controlled".into(),
            "timer ids are renumbered by first appearance, the only normalisation the property allows".into(),
        ]
    }
    fn components(&self) -> Value {
        json!({"real": ["crux_core Core + Bridge", "crux_http, crux_kv, crux_time (both APIs)", "http-types (HashMap-backed Headers)", "std RandomState"], "stub": ["app"], "simulated": ["hash-seed source (getrandom), wall clock (clock_gettime), the shell answering out of order"]})
    }
    fn runs(&self, tier: Tier) -> u64 {
        match tier {
            Tier::Quick => 20_000,
            Tier::Thorough => 600_000,
        }
    }

    fn generate(&self, rng: &mut Rng, _tier: Tier) -> Scn11 {
        let n = rng.range(2, 14) as usize;
        let mut steps = vec![];
        let mut id = 0u32;
        for _ in 0..n {
            id += 1;
            let api = if rng.chance(1, 2) { DApi::Command } else { DApi::Legacy };
            let st = match rng.below(10) {
                0..=3 => {
                    let nh = rng.below(9) as usize;
                    let mut headers = gen_header_set(rng, nh);
                    if rng.chance(1, 5) {
                        // many header lines, one name carrying several values (order of the values
                        // of a repeated header is part of what the app specified)
                        let extra = rng.range(25, 60);
                        for k in 0..extra {
                            headers.push((format!("x-many-{k}"), format!("m{}", rng.below(100))));
                        }
                        let rep = rng.range(2, 6);
                        for k in 0..rep {
                            headers.push(("accept".to_string(), format!("type/{k}")));
                        }
                        rng.shuffle(&mut headers[..]);
                    }
                    if rng.chance(1, 4) && !headers.is_empty() {
                        // repeated name
                        let h = headers[0].clone();
                        headers.push((h.0, "again".into()));
                    }
                    DStep::Event(DEvent::Http { id, api, headers, post: rng.chance(1, 3) })
                }
                4 => DStep::Event(DEvent::Kv { id, api, key: format!("k{}", rng.below(5)) }),
                5 if rng.chance(1, 2) => DStep::Event(DEvent::Timer { id, api, ms: rng.range(1, 5000) }),
                // deadlines on both sides of every "now" the replays will see (skew is +-5000 s)
                5 => DStep::Event(DEvent::TimerAt { id, api, offset_s: rng.range(0, 12_000) as i64 - 6_000 }),
                6 if rng.chance(1, 2) => DStep::Event(DEvent::ClearTimer { k: rng.below(250) as u8 }),
                6 => DStep::Event(DEvent::Render),
                _ => {
                    let nh = rng.below(5) as usize;
                    let nb = rng.below(12) as usize;
                    DStep::Answer {
                        k: rng.below(250) as u8,
                        status: *rng.pick(&[200, 200, 201, 404, 301]),
                        resp_headers: gen_header_set(rng, nh),
                        value: rng.bytes(nb),
                    }
                }
            };
            steps.push(st);
        }
        for _ in 0..4 {
            steps.push(DStep::Answer { k: rng.below(250) as u8, status: 200, resp_headers: gen_header_set(rng, 3), value: vec![1, 2, 3] });
        }
        if rng.chance(1, 3) {
            steps.push(DStep::CmdHistory(Box::new(gen_cmd_history(rng))));
        }
        if rng.chance(1, 4) {
            // both things a timer waits on become ready between two polls: which one it reports must not
            // depend on anything but the history
            let at = rng.chance(1, 2);
            let pos = rng.usize_below(steps.len() + 1);
            steps.insert(pos, DStep::DirectTimers { n: rng.range(1, 6) as u8, at });
        }
        let mut eq_cases = vec![];
        for _ in 0..rng.range(1, 3) {
            let nh = rng.range(0, 5) as usize;
            let headers = gen_header_set(rng, nh);
            let differ = match rng.below(9) {
                0 | 1 | 2 => Differ::Nothing,
                3 => Differ::Status,
                4 if nh > 0 => Differ::HeaderName(rng.usize_below(nh)),
                5 if nh > 0 => Differ::HeaderValue(rng.usize_below(nh)),
                6 => Differ::ExtraHeader,
                7 if nh > 0 => Differ::MissingHeader(rng.usize_below(nh)),
                8 if rng.chance(1, 2) => Differ::LaterValue,
                _ => Differ::Body,
            };
            let nb = rng.below(6) as usize;
            eq_cases.push(EqCase { status: *rng.pick(&[200, 201, 404]), headers, body: rng.bytes(nb), perm: rng.next_u64(), differ });
        }
        Scn11 {
            steps,
            hash_seed_a: rng.next_u64(),
            hash_seed_b: rng.next_u64(),
            skew_ms: rng.range(0, 10_000_000) as i64 - 5_000_000,
            cross_process: rng.chance(1, 40),
            eq_cases,
        }
    }

    fn execute(&self, s: &Scn11, cov: &mut Cov) -> Result<RunInfo, Violation> {
        // oracle 1: replay under varied seams
        let a = trial_on_thread(s.steps.clone(), s.hash_seed_a, 0, 0)?;
        let b = trial_on_thread(s.steps.clone(), s.hash_seed_b, s.skew_ms * 1_000_000, 64)?;
        cov.bump("fault:hash_seed_changed");
        cov.bump("fault:clock_skewed");
        if a != b {
            let i = a.iter().zip(b.iter()).position(|(x, y)| x != y).unwrap_or(a.len().min(b.len()));
            return Err(viol(
                if i % 2 == 0 { "replay_differs:effects" } else { "replay_differs:view" },
                format!(
                    "observable output #{i} differs between two replays of the same history (hash seeds {} / {}, clock skew {} ms): {} vs {}",
                    s.hash_seed_a,
                    s.hash_seed_b,
                    s.skew_ms,
                    show(a.get(i)),
                    show(b.get(i))
                ),
            ));
        }
        // same seed twice as well (pure repetition)
        let a2 = trial_on_thread(s.steps.clone(), s.hash_seed_a, 0, 7)?;
        if a != a2 {
            return Err(viol("replay_differs:same_seed", "two replays under the same hash seed differ".into()));
        }
        if s.cross_process {
            cov.bump("fault:separate_process");
            let dir = crate::runner::verif_root().join("work");
            std::fs::create_dir_all(&dir).ok();
            let path = dir.join(format!("c11-{}-{}.json", std::process::id(), s.hash_seed_a));
            std::fs::write(&path, serde_json::to_vec(&s.steps).unwrap()).map_err(|e| viol("harness", e.to_string()))?;
            let o = std::process::Command::new(std::env::current_exe().unwrap())
                .arg("c11-digest")
                .arg(&path)
                .arg(s.hash_seed_b.to_string())
                .output()
                .map_err(|e| viol("harness", e.to_string()))?;
            let _ = std::fs::remove_file(&path);
            let text = String::from_utf8_lossy(&o.stdout);
            let theirs: Option<u64> = text.trim().parse().ok();
            if theirs != Some(digest(&a)) {
                return Err(viol("replay_differs:separate_process", format!("a replay in a separate process gave digest {theirs:?}, here {}", digest(&a))));
            }
        }
        // oracle 2: equality of the values handed to apps and tests
        for c in &s.eq_cases {
            let later = c.differ == Differ::LaterValue;
            let repeated: Vec<(String, String)> = vec![("set-cookie".into(), "a=1".into()), ("set-cookie".into(), "b=2".into())];
            let Some(x) = build_response(c.status, if later { &repeated } else { &c.headers }, &c.body) else { continue };
            let mut h2 = if later { repeated.clone() } else { c.headers.clone() };
            if !later {
                Rng::new(c.perm).shuffle(&mut h2);
            }
            let mut status = c.status;
            let mut body = c.body.clone();
            match &c.differ {
                Differ::Nothing => {}
                Differ::Status => status = if status == 200 { 202 } else { 200 },
                Differ::HeaderName(i) => {
                    let t = c.headers[*i].0.clone();
                    if let Some(h) = h2.iter_mut().find(|h| h.0 == t) {
                        h.0 = format!("{}-other", h.0);
                    }
                }
                Differ::HeaderValue(i) => {
                    let t = c.headers[*i].0.clone();
                    if let Some(h) = h2.iter_mut().find(|h| h.0 == t) {
                        h.1 = format!("{}-other", h.1);
                    }
                }
                Differ::ExtraHeader => h2.push(("x-extra".into(), "1".into())),
                Differ::MissingHeader(i) => {
                    let t = c.headers[*i].0.clone();
                    h2.retain(|h| h.0 != t);
                }
                Differ::Body => body.push(1),
                Differ::LaterValue => h2[1].1 = "b=3".into(),
            }
            // a fresh thread gives the second instance its own hash keys
            crate::runner::set_hash_seed(c.perm);
            let y = std::thread::spawn({
                let (h2, body) = (h2.clone(), body.clone());
                move || build_response(status, &h2, &body)
            })
            .join()
            .ok()
            .flatten();
            let Some(y) = y else { continue };
            // third observation: the order in which an app iterating over the response sees its headers
            if c.differ == Differ::Nothing && c.headers.len() >= 2 {
                let ox: Vec<String> = x.iter().map(|(n, _)| n.to_string()).collect();
                let oy: Vec<String> = y.iter().map(|(n, _)| n.to_string()).collect();
                cov.bump("eq_case:header_iteration_order");
                if ox != oy {
                    cov.tolerate(viol("response_header_iteration_order_depends_on_hash_seed", format!("two responses with the same headers iterate them as {ox:?} and {oy:?}")))?;
                }
            }
            let equal_content = c.differ == Differ::Nothing;
            cov.bump(if equal_content { "eq_case:equal_content" } else { "eq_case:one_component_differs" });
            if (x == y) != equal_content {
                let clause = if equal_content {
                    "response_eq:equal_content_compares_unequal".to_string()
                } else if matches!(c.differ, Differ::ExtraHeader | Differ::MissingHeader(_) | Differ::HeaderName(_)) {
                    "response_eq:different_header_sets_compare_equal".to_string()
                } else {
                    format!("response_eq:differs_in_{}_but_compares_equal", differ_kind(&c.differ))
                };
                cov.tolerate(viol(&clause, format!("Response == gave {} for status {}/{status}, headers {:?} vs {:?}, body {:?} vs {:?}", x == y, c.status, c.headers, h2, c.body, body)))?;
            }
        }
        let mut shape = 0u64;
        let mut max_headers = 0;
        for st in &s.steps {
            shape = mix(
                shape,
                match st {
                    DStep::Event(DEvent::Http { headers, api, .. }) => {
                        max_headers = max_headers.max(headers.len());
                        100 + headers.len() as u64 + if *api == DApi::Legacy { 50 } else { 0 }
                    }
                    DStep::Event(DEvent::Kv { .. }) => 2,
                    DStep::Event(DEvent::Timer { .. }) => 3,
                    DStep::Event(_) => 4,
                    DStep::Answer { k, .. } => 1000 + u64::from(*k % 4),
                    DStep::DirectTimers { n, at } => 2000 + u64::from(*n) + if *at { 10 } else { 0 },
                    DStep::CmdHistory(c) => 3000 + c.steps.len() as u64,
                },
            );
        }
        cov.trace_u64(digest(&a));
        cov.bump("sim_steps");
        Ok(RunInfo { shape, nontrivial: max_headers >= 2, discarded: false })
    }

    fn shrink(&self, s: &Scn11) -> Vec<Scn11> {
        let mut out = vec![];
        for i in (0..s.steps.len()).rev() {
            let mut v = s.steps.clone();
            v.remove(i);
            out.push(Scn11 { steps: v, ..s.clone() });
        }
        for i in 0..s.steps.len() {
            if let DStep::Event(DEvent::Http { id, api, headers, post }) = &s.steps[i] {
                for k in 0..headers.len() {
                    let mut h = headers.clone();
                    h.remove(k);
                    let mut v = s.steps.clone();
                    v[i] = DStep::Event(DEvent::Http { id: *id, api: *api, headers: h, post: *post });
                    out.push(Scn11 { steps: v, ..s.clone() });
                }
            }
        }
        for i in 0..s.eq_cases.len() {
            let mut v = s.eq_cases.clone();
            v.remove(i);
            out.push(Scn11 { eq_cases: v, ..s.clone() });
        }
        if s.cross_process {
            out.push(Scn11 { cross_process: false, ..s.clone() });
        }
        out
    }
}

/// command programs for the replay check: a join fan-in (several tasks awaiting one handle) up front, then
/// generated programs; no races (the point is the order of what is emitted, which must not vary)
fn gen_cmd_history(rng: &mut Rng) -> crate::cmd::gen::Scenario {
    use crate::cmd::ast::{Cmd, Leaf, OpKind, Stmt, Task};
    use crate::cmd::gen::{gen_script, GenCfg, ProgGen, Scenario, ScriptCfg};
    use crate::cmd::hosts::HostSel;
    let host = *rng.pick(&[HostSel::BridgeBincode, HostSel::BridgeBincodeFx]);
    let mut cfg = GenCfg::swarm(rng, false);
    cfg.select = false;
    cfg.abort_cmd = false;
    cfg.abort_task = false;
    cfg.legacy = false;
    cfg.cap_in_cmd = false;
    cfg.bursts = false;
    let mut programs = vec![];
    if rng.chance(2, 3) {
        let base = 7000u32;
        let k = rng.range(5, 9) as u32;
        let mut stmts = vec![Stmt::Spawn { slot: Some(base + 1), task: Task { label: base + 1, stmts: vec![Stmt::Request(Leaf { site: base + 1, op: OpKind::A })] } }];
        for i in 0..k {
            stmts.push(Stmt::Spawn {
                slot: None,
                task: Task {
                    label: base + 10 + i,
                    stmts: vec![Stmt::Join(base + 1), Stmt::Request(Leaf { site: base + 10 + i, op: OpKind::A }), Stmt::Emit { tag: base + 30 + i, cont: None }],
                },
            });
        }
        programs.push(Cmd::Async(Task { label: base, stmts }));
    }
    for i in 0..rng.range(1, 2) {
        let mut g = ProgGen::new(rng, cfg.clone(), (i as u32 + 1) * 1000);
        let d = g.cfg.max_depth;
        programs.push(g.cmd(d));
    }
    let sc = ScriptCfg {
        max_steps: rng.range(4, 30) as u32,
        max_batch: 1,
        drops: false,
        bridge_drops: false,
        bad_items: false,
        dups: false,
        aborts: false,
        noops: true,
        drop_roots: false,
        drop_all: false,
        order_bias: rng.below(3) as u8,
        stream_items: 3,
        force_batch1: true,
        bridge_dups: false,
        abort_before_poll: false,
        legacy_drops: false,
    };
    let so = gen_script(rng, programs, host, &sc);
    Scenario { host, steps: so.steps, hash_seed: 0, buggify: false, drain_from: so.drain_from, adaptive_drain: false, defer_drops: false, bridge_dups: false, legacy_drops: false }
}

fn differ_kind(d: &Differ) -> &'static str {
    match d {
        Differ::Nothing => "nothing",
        Differ::Status => "status",
        Differ::HeaderName(_) => "header_name",
        Differ::HeaderValue(_) => "header_value",
        Differ::ExtraHeader => "extra_header",
        Differ::MissingHeader(_) => "missing_header",
        Differ::Body => "body",
        Differ::LaterValue => "later_value_of_a_repeated_header",
    }
}

fn show(b: Option<&Vec<u8>>) -> String {
    match b {
        None => "<nothing>".into(),
        Some(b) => {
            let s = String::from_utf8_lossy(b);
            let t: String = s.chars().map(|c| if c.is_control() { '.' } else { c }).take(260).collect();
            format!("{} bytes \"{t}\"", b.len())
        }
    }
}

/// `crux-sim c11-digest <steps.json> <hash_seed>`: replay in this (separate) process, print the digest
pub fn digest_main(path: &str, hash_seed: u64) -> i32 {
    let Ok(data) = std::fs::read(path) else { return 2 };
    let Ok(steps) = serde_json::from_slice::<Vec<DStep>>(&data) else { return 2 };
    match trial_on_thread(steps, hash_seed, 0, 3) {
        Ok(o) => {
            println!("{}", digest(&o));
            0
        }
        Err(_) => 1,
    }
}
