#![allow(dead_code)]
mod alloc;
mod cap;
mod cmd;
mod props;
mod rng;
mod runner;
mod seams;
mod thr;

use runner::{harness_error, ChildArgs, Tier};

macro_rules! with_check {
    ($id:expr, $c:ident => $body:expr) => {{
        match $id {
            "C01" => { let $c: &'static props::cmdprops::CmdCheck = &props::cmdprops::C01; $body }
            "C02" => { let $c: &'static props::cmdprops::CmdCheck = &props::cmdprops::C02; $body }
            "C03" => { let $c: &'static props::cmdprops::CmdCheck = &props::cmdprops::C03; $body }
            "C04" => { let $c: &'static props::cmdprops::CmdCheck = &props::cmdprops::C04; $body }
            "C05" => { let $c: &'static props::cmdprops::CmdCheck = &props::cmdprops::C05; $body }
            "C06" => { let $c: &'static props::cmdprops::CmdCheck = &props::cmdprops::C06; $body }
            "C07" => { let $c: &'static props::cmdprops::CmdCheck = &props::cmdprops::C07; $body }
            "C08" => { let $c: &'static thr::ThrCheck = &thr::C08; $body }
            "C09" => { let $c: &'static props::cmdprops::CmdCheck = &props::cmdprops::C09; $body }
            "C11" => { let $c: &'static props::c11::C11Check = &props::c11::C11; $body }
            "C12" => { let $c: &'static props::c12::C12Check = &props::c12::C12; $body }
            "C13" => { let $c: &'static props::cmdprops::CmdCheck = &props::cmdprops::C13; $body }
            "C15" => { let $c: &'static cap::http::Http15 = &cap::http::C15; $body }
            "C16" => { let $c: &'static cap::http::Http16 = &cap::http::C16; $body }
            "C17" => { let $c: &'static cap::kv::KvCheck = &cap::kv::C17; $body }
            "C18" => { let $c: &'static cap::time::TimeCheck = &cap::time::C18; $body }
            other => harness_error(&format!("unknown check {other}")),
        }
    }};
}

#[global_allocator]
static GLOBAL: alloc::Counting = alloc::Counting;

fn main() {
    runner::install_panic_hook();
    let args: Vec<String> = std::env::args().collect();
    let code = match args.get(1).map(String::as_str) {
        Some("check") => {
            let id = args.get(2).cloned().unwrap_or_default();
            let tier = Tier::parse(args.get(3).map_or("quick", String::as_str));
            with_check!(id.as_str(), c => runner::parent(c, tier))
        }
        Some("child") => {
            let id = args[2].clone();
            let a = ChildArgs {
                tier: Tier::parse(&args[3]),
                master_seed: args[4].parse().unwrap(),
                start: args[5].parse().unwrap(),
                count: args[6].parse().unwrap(),
                out: args[7].clone().into(),
                deadline_s: args[8].parse().unwrap(),
                known_sigs: args[9..].to_vec(),
            };
            with_check!(id.as_str(), c => runner::child(c, &a))
        }
        Some("replay") => {
            let path = args.get(2).cloned().unwrap_or_default();
            let data = std::fs::read(&path).unwrap_or_else(|e| harness_error(&format!("read {path}: {e}")));
            let v: serde_json::Value = serde_json::from_slice(&data).unwrap_or_else(|e| harness_error(&format!("parse: {e}")));
            let id = v["property"].as_str().unwrap_or("").to_string();
            let mut known = vec![];
            let mut i = 3;
            while i + 1 < args.len() {
                if args[i] == "--known" {
                    known.push(args[i + 1].clone());
                }
                i += 2;
            }
            with_check!(id.as_str(), c => runner::replay(c, &path, &known))
        }
        Some("c11-digest") => {
            let path = args.get(2).cloned().unwrap_or_default();
            let seed: u64 = args.get(3).and_then(|s| s.parse().ok()).unwrap_or(0);
            props::c11::digest_main(&path, seed)
        }
        Some("selftest-determinism") => {
            let id = args.get(2).cloned().unwrap_or_default();
            let n: u64 = args.get(3).and_then(|s| s.parse().ok()).unwrap_or(500);
            with_check!(id.as_str(), c => runner::selftest_determinism(c, n, Tier::Quick))
        }
        _ => {
            eprintln!("usage: crux-sim check <ID> <quick|thorough> | replay <file> | selftest-determinism <ID> [n]");
            2
        }
    };
    std::process::exit(code);
}
