//! Seams owned by the simulator that live outside crux: the source of hash-map seeds.
//!
//! std's `RandomState` takes its per-thread keys from `getrandom`; defining the symbol in this
//! binary interposes it, so every `HashMap` iteration order (http-types' header maps included,
//! on every thread) is a pure function of `HASH_SEED`. Runs execute on a fresh thread each, so
//! each run's orders depend on its own scenario only.

use std::sync::atomic::{AtomicU64, Ordering};

pub static HASH_SEED: AtomicU64 = AtomicU64::new(0);
pub static GETRANDOM_CALLS: AtomicU64 = AtomicU64::new(0);

/// # Safety
/// Called by libc users with a valid buffer of `len` bytes.
#[no_mangle]
pub unsafe extern "C" fn getrandom(buf: *mut u8, len: usize, _flags: u32) -> isize {
    GETRANDOM_CALLS.fetch_add(1, Ordering::Relaxed);
    let mut s = HASH_SEED.load(Ordering::SeqCst) ^ 0x9E37_79B9_7F4A_7C15;
    for i in 0..len {
        s = s.wrapping_mul(6_364_136_223_846_793_005).wrapping_add(1_442_695_040_888_963_407);
        *buf.add(i) = (s >> 33) as u8;
    }
    len as isize
}
