//! Seams owned by the simulator that live outside crux: the source of hash-map seeds.
//!
//! std's `RandomState` takes its per-thread keys from `getrandom`; defining the symbol in this
//! binary interposes it, so every `HashMap` iteration order (http-types' header maps included,
//! on every thread) is a pure function of `HASH_SEED`. Runs execute on a fresh thread each, so
//! each run's orders depend on its own scenario only.

use std::sync::atomic::{AtomicU64, Ordering};

pub static HASH_SEED: AtomicU64 = AtomicU64::new(0);
pub static GETRANDOM_CALLS: AtomicU64 = AtomicU64::new(0);

/// # Safety
/// Called by libc users with a valid buffer of `len` bytes.
#[no_mangle]
pub unsafe extern "C" fn getrandom(buf: *mut u8, len: usize, _flags: u32) -> isize {
    GETRANDOM_CALLS.fetch_add(1, Ordering::Relaxed);
    let mut s = HASH_SEED.load(Ordering::SeqCst) ^ 0x9E37_79B9_7F4A_7C15;
    for i in 0..len {
        s = s.wrapping_mul(6_364_136_223_846_793_005).wrapping_add(1_442_695_040_888_963_407);
        *buf.add(i) = (s >> 33) as u8;
    }
    len as isize
}

// ------------------------------------------------------------------------------------------------
// clock seam: every clock read of the process goes through here (std calls the libc symbol),
// so reads can be counted and skewed. The core must not read any clock at all.

use std::sync::atomic::AtomicI64;

pub static CLOCK_CALLS: AtomicU64 = AtomicU64::new(0);
pub static CLOCK_SKEW_NS: AtomicI64 = AtomicI64::new(0);
/// when non-zero the wall clock is fully simulated: CLOCK_REALTIME reads this value (+ skew, + 1 us
/// per read so that it never stands still), so deadlines of a history can be placed before or after
/// "now" of a replay without reading the real clock
pub static CLOCK_ABS_NS: AtomicI64 = AtomicI64::new(0);

/// # Safety
/// `ts` must point to a writable timespec, as for libc's clock_gettime.
#[no_mangle]
pub unsafe extern "C" fn clock_gettime(clk: libc::clockid_t, ts: *mut libc::timespec) -> libc::c_int {
    let calls = CLOCK_CALLS.fetch_add(1, Ordering::Relaxed);
    let r = libc::syscall(libc::SYS_clock_gettime, clk, ts) as libc::c_int;
    if r == 0 && clk == libc::CLOCK_REALTIME {
        let skew = CLOCK_SKEW_NS.load(Ordering::Relaxed);
        let abs = CLOCK_ABS_NS.load(Ordering::Relaxed);
        if abs != 0 {
            let total = i128::from(abs) + i128::from(skew) + i128::from(calls % 1_000_000) * 1000;
            (*ts).tv_sec = (total.div_euclid(1_000_000_000)) as libc::time_t;
            (*ts).tv_nsec = (total.rem_euclid(1_000_000_000)) as libc::c_long;
        } else if skew != 0 {
            let total = i128::from((*ts).tv_sec) * 1_000_000_000 + i128::from((*ts).tv_nsec) + i128::from(skew);
            (*ts).tv_sec = (total.div_euclid(1_000_000_000)) as libc::time_t;
            (*ts).tv_nsec = (total.rem_euclid(1_000_000_000)) as libc::c_long;
        }
    }
    r
}
