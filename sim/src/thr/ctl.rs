//! Baton-passing controller over real threads parked at the named schedule points of
//! `crux_core::verif`. Exactly one simulated thread runs between points, so the list of
//! scheduling decisions *is* the execution.

use std::cell::Cell;
use std::collections::BTreeMap;
use std::sync::{Arc, Condvar, Mutex};
use std::time::{Duration, Instant};

use serde::{Deserialize, Serialize};

/// Explicit schedule: the running thread continues at every decision, except at the listed
/// decision indices, where the baton goes to another eligible thread (chosen by `salt`).
#[derive(Clone, Debug, Default, PartialEq, Eq, Serialize, Deserialize)]
pub struct Schedule {
    pub preempt_at: Vec<(u32, u8)>,
    /// ... and at the k-th time (counted over all threads) the named schedule point is reached:
    /// (point name, k, salt). Steers preemptions to the places where threads actually meet.
    #[serde(default)]
    pub at_point: Vec<(String, u32, u8)>,
    /// a thread spinning on a task that is being polled elsewhere (`exec.unavailable`) gets the baton
    /// back at the other thread's next schedule point, as a spinning thread really would, instead of
    /// waiting until the other thread is preempted or done
    #[serde(default)]
    pub spinner_comes_back: bool,
}

#[derive(Clone, Debug, PartialEq, Eq)]
enum Status {
    NotStarted,
    Running,
    AtPoint(&'static str),
    Blocked(&'static str, usize),
    Finished,
}

struct St {
    current: Option<usize>,
    status: Vec<Status>,
    yielding: Vec<bool>,
    spinner: Option<usize>,
    /// decision index at which each thread was last given the baton (forced switches go to the thread
    /// that has waited longest, so that two spinning threads cannot starve a third)
    last_run: Vec<u32>,
    locks: BTreeMap<(&'static str, usize), usize>,
    decision: u32,
    schedule: Schedule,
    trace: Vec<(u8, &'static str)>,
    preemptions_done: u32,
    step_cap: u32,
    last_progress: Instant,
    error: Option<String>,
    point_counts: BTreeMap<&'static str, u64>,
    blocked_events: u64,
    yield_events: u64,
}

pub struct Ctl {
    st: Mutex<St>,
    cv: Condvar,
}

thread_local! {
    static ME: Cell<Option<usize>> = const { Cell::new(None) };
}

pub struct RunReport {
    pub trace: Vec<(u8, &'static str)>,
    pub decisions: u32,
    pub preemptions: u32,
    pub point_counts: BTreeMap<&'static str, u64>,
    pub blocked_events: u64,
    pub yield_events: u64,
}

impl Ctl {
    pub fn new(threads: usize, schedule: Schedule) -> Arc<Ctl> {
        Arc::new(Ctl {
            st: Mutex::new(St {
                current: None,
                status: vec![Status::NotStarted; threads],
                yielding: vec![false; threads],
                spinner: None,
                last_run: vec![0; threads],
                locks: BTreeMap::new(),
                decision: 0,
                schedule,
                trace: vec![],
                preemptions_done: 0,
                step_cap: 3000,
                last_progress: Instant::now(),
                error: None,
                point_counts: BTreeMap::new(),
                blocked_events: 0,
                yield_events: 0,
            }),
            cv: Condvar::new(),
        })
    }

    fn eligible(st: &St, i: usize) -> bool {
        match &st.status[i] {
            Status::AtPoint(_) => true,
            Status::Blocked(name, addr) => !st.locks.contains_key(&(*name, *addr)),
            _ => false,
        }
    }

    /// pick who runs next; `me` is the thread making the decision (it is parked or finished)
    fn choose(st: &mut St, me: usize) {
        Self::choose_at(st, me, None)
    }

    fn choose_at(st: &mut St, me: usize, at: Option<(&'static str, u64)>) {
        st.last_progress = Instant::now();
        let n = st.status.len();
        let elig: Vec<usize> = (0..n).filter(|i| Self::eligible(st, *i)).collect();
        if elig.is_empty() {
            st.current = None;
            if st.status.iter().any(|s| !matches!(s, Status::Finished)) && !st.status.iter().any(|s| matches!(s, Status::Running | Status::NotStarted)) {
                st.error = Some("no eligible thread although some are unfinished".into());
            }
            return;
        }
        let idx = st.decision;
        st.decision += 1;
        let me_ok = elig.contains(&me) && !st.yielding[me];
        let others: Vec<usize> = elig.iter().copied().filter(|i| *i != me).collect();
        let longest_waiting = others.iter().copied().min_by_key(|i| (st.last_run[*i], *i));
        let mut pick = if me_ok { me } else if let Some(o) = longest_waiting { o } else { me };
        if st.schedule.spinner_comes_back {
            if let Some(sp) = st.spinner {
                if sp != me {
                    st.spinner = None;
                    if elig.contains(&sp) && st.decision < st.step_cap {
                        pick = sp;
                    }
                }
            }
        }
        if st.decision < st.step_cap {
            let by_index = st.schedule.preempt_at.iter().find(|(d, _)| *d == idx).map(|(_, salt)| *salt);
            let by_name = at.and_then(|(name, nth)| st.schedule.at_point.iter().find(|(n, k, _)| n == name && u64::from(*k) + 1 == nth).map(|(_, _, salt)| *salt));
            if let Some(salt) = by_index.or(by_name) {
                if !others.is_empty() {
                    pick = others[salt as usize % others.len()];
                    if me_ok {
                        st.preemptions_done += 1;
                    }
                }
            }
        }
        for y in st.yielding.iter_mut() {
            *y = false;
        }
        st.last_run[pick] = idx + 1;
        st.current = Some(pick);
    }

    fn park(&self, me: usize, mut st: std::sync::MutexGuard<'_, St>) {
        self.cv.notify_all();
        while st.current != Some(me) {
            st = self.cv.wait(st).unwrap();
        }
        st.status[me] = Status::Running;
    }

    /// called by a simulated thread before anything else
    pub fn enter(self: &Arc<Self>, me: usize) {
        ME.with(|m| m.set(Some(me)));
        crux_core::verif::set_thread_controller(Some(self.clone()));
        let mut st = self.st.lock().unwrap();
        st.status[me] = Status::AtPoint("start");
        self.cv.notify_all();
        while st.current != Some(me) {
            st = self.cv.wait(st).unwrap();
        }
        st.status[me] = Status::Running;
    }

    /// called by a simulated thread when its script is done
    pub fn finish(&self, me: usize) {
        crux_core::verif::set_thread_controller(None);
        ME.with(|m| m.set(None));
        let mut st = self.st.lock().unwrap();
        st.status[me] = Status::Finished;
        // anything it still owns is released (cannot happen with scoped guards, but be safe)
        st.locks.retain(|_, o| *o != me);
        Self::choose(&mut st, me);
        self.cv.notify_all();
    }

    /// main thread: start the run and wait for all simulated threads to finish
    pub fn run_to_completion(&self, watchdog: Duration) -> Result<RunReport, String> {
        let mut st = self.st.lock().unwrap();
        // wait until every thread has checked in
        let t0 = Instant::now();
        while st.status.iter().any(|s| matches!(s, Status::NotStarted)) {
            let (g, _) = self.cv.wait_timeout(st, Duration::from_millis(50)).unwrap();
            st = g;
            if t0.elapsed() > watchdog {
                return Err("threads did not start".into());
            }
        }
        st.current = Some(0);
        st.last_progress = Instant::now();
        self.cv.notify_all();
        loop {
            if st.status.iter().all(|s| matches!(s, Status::Finished)) {
                break;
            }
            if let Some(e) = &st.error {
                return Err(e.clone());
            }
            if st.last_progress.elapsed() > watchdog {
                return Err(format!(
                    "watchdog: no scheduling progress; statuses {:?}, current {:?}",
                    st.status, st.current
                ));
            }
            let (g, _) = self.cv.wait_timeout(st, Duration::from_millis(20)).unwrap();
            st = g;
        }
        Ok(RunReport {
            trace: std::mem::take(&mut st.trace),
            decisions: st.decision,
            preemptions: st.preemptions_done,
            point_counts: std::mem::take(&mut st.point_counts),
            blocked_events: st.blocked_events,
            yield_events: st.yield_events,
        })
    }
}

const MIRRORED_LOCKS_ARE_SEAMS: bool = true;

impl crux_core::verif::Controller for Ctl {
    fn point(&self, name: &'static str) {
        let Some(me) = ME.with(Cell::get) else { return };
        let mut st = self.st.lock().unwrap();
        if st.trace.len() < 20_000 {
            st.trace.push((me as u8, name));
        }
        *st.point_counts.entry(name).or_insert(0) += 1;
        let nth = st.point_counts[name];
        st.status[me] = Status::AtPoint(name);
        if name == "exec.unavailable" {
            st.spinner = Some(me);
        }
        if name == "exec.unavailable" || name == "rwlock.contended" || name == "mutex.contended" {
            // spin-wait on another thread: somebody else has to run before this one continues
            st.yielding[me] = true;
            st.yield_events += 1;
        }
        Self::choose_at(&mut st, me, Some((name, nth)));
        self.park(me, st);
    }

    fn lock_enter(&self, name: &'static str, addr: usize) {
        // The locks that used to be mirrored through these announcements are seams themselves now
        // (crux_core::verif::Mutex / RwLock): a contended acquisition is a forced yield at the lock.
        // Waiting here as well would keep a thread away from a lock it could try.
        if MIRRORED_LOCKS_ARE_SEAMS {
            return;
        }
        let Some(me) = ME.with(Cell::get) else { return };
        let mut st = self.st.lock().unwrap();
        loop {
            match st.locks.get(&(name, addr)) {
                None => {
                    st.locks.insert((name, addr), me);
                    return;
                }
                Some(o) if *o == me => return, // re-entrant announcement: tolerated
                Some(_) => {
                    st.status[me] = Status::Blocked(name, addr);
                    st.blocked_events += 1;
                    Self::choose(&mut st, me);
                    self.cv.notify_all();
                    while st.current != Some(me) {
                        st = self.cv.wait(st).unwrap();
                    }
                    st.status[me] = Status::Running;
                }
            }
        }
    }

    fn lock_exit(&self, name: &'static str, addr: usize) {
        if MIRRORED_LOCKS_ARE_SEAMS {
            return;
        }
        let Some(me) = ME.with(Cell::get) else { return };
        let mut st = self.st.lock().unwrap();
        if st.locks.get(&(name, addr)) == Some(&me) {
            st.locks.remove(&(name, addr));
        }
    }

    fn buggify(&self, _name: &'static str) -> bool {
        false
    }
}
