//! thrsim: several simulated shell threads call into one core concurrently; the controller of
//! `ctl.rs` decides every interleaving at the schedule points placed in crux_core (C08).

pub mod ctl;

use std::collections::{BTreeMap, BTreeSet};
use std::time::Duration;

use serde::de::DeserializeOwned;
use serde::{Deserialize, Serialize};
use serde_json::{json, Value};

use crate::cmd::ast::Cmd;
use crate::cmd::driver::{emitter_order_ok, shape_of_cmd};
use crate::cmd::gen::{apply_to_model, gen_script, Action, GenCfg, ProgGen, ScriptCfg};
use crate::cmd::hosts::{
    encode, BridgeHost, CoreHost, FfiDesc, Held, Host, HostSel, SimApp, Wire,
};
use crate::cmd::model::{Arity, EffectDesc, HostKind, Model, Outcome, ReqKey};
use crate::cmd::ops::{app1, app2, out_b, Event, LogEntry, SimEffect, View};
use crate::rng::{fnv, mix, Rng};
use crate::runner::{catch, Check, Cov, RunInfo, Tier, Violation};
use ctl::{Ctl, Schedule};

#[derive(Clone, Debug, PartialEq, Eq, Serialize, Deserialize)]
pub enum ThrOp {
    Resolve { site: u32, arg: u64, v: u64 },
    Event(Event),
    View,
}

#[derive(Clone, Debug, Serialize, Deserialize)]
pub struct ThrScn {
    pub host: HostSel,
    pub prologue: Vec<Vec<Action>>,
    pub threads: Vec<Vec<ThrOp>>,
    pub epilogue: Vec<Vec<Action>>,
    pub schedule: Schedule,
    pub hash_seed: u64,
}

pub struct ThrCheck;
pub static C08: ThrCheck = ThrCheck;

fn viol(clause: &str, msg: String) -> Violation {
    Violation::new(format!("C08:{clause}"), msg)
}

// ------------------------------------------------------------------------------------------------
// generation

fn thr_gen_cfg(rng: &mut Rng, legacy: bool) -> GenCfg {
    GenCfg {
        max_depth: rng.range(1, 3) as u32,
        fanout: rng.range(2, 3) as u32,
        max_stages: rng.range(0, 2) as u32,
        chains: rng.chance(3, 4),
        streams: rng.chance(4, 5),
        tasks: true,
        spawn: rng.chance(1, 2),
        // operations of different threads must commute: nothing whose outcome depends on order
        select: false,
        join_all: rng.chance(1, 2),
        abort_cmd: false,
        abort_task: false,
        conts: rng.chance(1, 3),
        legacy,
        maps: rng.chance(1, 3),
        tokens: false,
        yields: rng.chance(1, 4),
        op_b: rng.chance(1, 3),
        render: rng.chance(1, 4),
        channels: rng.chance(1, 4),
        cap_in_cmd: false,
        bursts: false,
    }
}

fn strip_takes(c: &mut Cmd) {
    // `take` makes the outcome depend on which items arrive first: not commutative
    fn stmts(ss: &mut Vec<crate::cmd::ast::Stmt>) {
        use crate::cmd::ast::Stmt;
        for s in ss.iter_mut() {
            match s {
                Stmt::StreamLoop { body, take, .. } => {
                    *take = None;
                    stmts(body);
                }
                Stmt::Spawn { task, .. } | Stmt::SpawnChan { task, .. } => stmts(&mut task.stmts),
                Stmt::JoinAll(ts) | Stmt::SelectFirst(ts) => ts.iter_mut().for_each(|t| stmts(&mut t.stmts)),
                Stmt::Emit { cont: Some(c), .. } => strip_takes(c),
                _ => {}
            }
        }
    }
    match c {
        Cmd::Chain(ch) => {
            if let Some(k) = &mut ch.cont {
                strip_takes(k);
            }
        }
        Cmd::Then(a, b) | Cmd::And(a, b) => {
            strip_takes(a);
            strip_takes(b);
        }
        Cmd::All(xs) => xs.iter_mut().for_each(strip_takes),
        Cmd::MapEffect(_, x) | Cmd::MapEvent(_, x) | Cmd::IntoFrom(x) | Cmd::Abortable(_, x) => strip_takes(x),
        Cmd::Async(t) | Cmd::Legacy(t) => stmts(&mut t.stmts),
        _ => {}
    }
}

/// is the stream request at `site` consumed by a loop body / chain that never blocks?
fn nonblocking_consumer(c: &Cmd, site: u32) -> bool {
    use crate::cmd::ast::{Stage, Stmt};
    let found = std::cell::Cell::new(false);
    c.visit(
        &mut |c| {
            if let Cmd::Chain(ch) = c {
                if ch.stream && ch.first.site == site && ch.stages.iter().all(|s| matches!(s, Stage::Map(_))) {
                    found.set(true);
                }
            }
        },
        &mut |s| {
            if let Stmt::StreamLoop { leaf, body, .. } = s {
                if leaf.site == site && body.iter().all(|b| matches!(b, Stmt::Emit { .. } | Stmt::Notify(_) | Stmt::HoldToken)) {
                    found.set(true);
                }
            }
        },
    );
    found.get()
}

fn sequential_model(s: &ThrScn) -> Option<(Model, Vec<EffectDesc>, Vec<Vec<Outcome>>)> {
    let mut m = Model::new(HostKind::Core);
    m.g.legacy_supported = s.host.supports_legacy();
    let none = BTreeSet::new();
    let mut effects = vec![];
    for st in &s.prologue {
        for a in st {
            apply_to_model(&mut m, a);
        }
        effects.extend(m.settle(&none).effects);
    }
    let mut outcomes = vec![];
    for t in &s.threads {
        let mut o = vec![];
        for op in t {
            match op {
                ThrOp::Resolve { site, arg, v } => o.push(m.resolve((*site, *arg), *v)),
                ThrOp::Event(ev) => m.send_event(ev),
                ThrOp::View => {}
            }
            effects.extend(m.settle(&none).effects);
        }
        outcomes.push(o);
    }
    if m.g.ambiguous.is_some() {
        return None;
    }
    Some((m, effects, outcomes))
}

impl ThrCheck {
    fn gen(&self, rng: &mut Rng, thorough: bool) -> ThrScn {
        let mut crng = rng.fork("cfg");
        let host = *crng.pick(&[
            HostSel::CoreFx,
            HostSel::CoreCaps,
            HostSel::BridgeBincode,
            HostSel::BridgeBincode,
            HostSel::BridgeJson,
        ]);
        let legacy = host.supports_legacy() && crng.chance(1, 2);
        let cfg = thr_gen_cfg(&mut crng, legacy);
        let mut prng = rng.fork("programs");
        let nprog = prng.range(1, 3) as usize;
        let mut programs = vec![];
        for i in 0..nprog {
            let mut g = ProgGen::new(&mut prng, cfg.clone(), (i as u32 + 1) * 1000);
            let d = g.cfg.max_depth;
            let mut c = g.cmd(d);
            strip_takes(&mut c);
            programs.push(c);
        }
        if prng.chance(1, 4) {
            // the shape C08 is about, made common: one task waiting on several requests at once, which
            // different threads will answer (old or new API; each branch reports when it got its answer)
            use crate::cmd::ast::{Leaf, OpKind, Stmt, Task};
            let base = 9000u32;
            let n = prng.range(2, 3) as u32;
            let branches: Vec<Task> = (0..n)
                .map(|k| Task {
                    label: base + 10 + k,
                    stmts: vec![Stmt::Request(Leaf { site: base + 20 + k, op: OpKind::A }), Stmt::Emit { tag: base + 30 + k, cont: None }],
                })
                .collect();
            let t = Task { label: base, stmts: vec![Stmt::JoinAll(branches)] };
            programs.insert(0, if legacy && prng.chance(2, 3) { Cmd::Legacy(t) } else { Cmd::Async(t) });
        }
        let sc = ScriptCfg {
            max_steps: crng.range(1, 8) as u32,
            max_batch: 1,
            drops: false,
            bridge_drops: false,
            bad_items: false,
            dups: false,
            aborts: false,
            noops: false,
            drop_roots: false,
            drop_all: false,
            order_bias: 0,
            stream_items: 2,
            force_batch1: true,
            bridge_dups: false,
            abort_before_poll: false,
            legacy_drops: false,
        };
        let mut srng = rng.fork("script");
        let so = gen_script(&mut srng, programs, host, &sc);
        let prologue: Vec<Vec<Action>> = so.steps[..so.drain_from].to_vec();

        // state after the prologue
        let mut m = Model::new(HostKind::Core);
        m.g.legacy_supported = host.supports_legacy();
        let none = BTreeSet::new();
        for st in &prologue {
            for a in st {
                apply_to_model(&mut m, a);
            }
            m.settle(&none);
        }
        let mut trng = rng.fork("threads");
        let nthreads = if thorough { trng.range(2, 3) } else { 2 } as usize;
        let mut threads: Vec<Vec<ThrOp>> = vec![vec![]; nthreads];
        let mut next_v = 5_000_000u64;
        for o in m.outstanding() {
            match o.arity {
                Arity::Once if !o.resolved => {
                    if trng.chance(4, 5) {
                        next_v += 1;
                        let t = trng.usize_below(nthreads);
                        threads[t].push(ThrOp::Resolve { site: o.key.0, arg: o.key.1, v: next_v });
                    }
                }
                Arity::Many if o.rx_alive => {
                    // over the bridge an id is a plain integer: several threads may answer one stream
                    // ... but only where items are consumed without blocking: otherwise which item is
                    // taken first decides what is outstanding afterwards and the scripts do not commute
                    let multi = host.is_bridge() && prologue.iter().flatten().any(|a| match a {
                        Action::Event(Event::Run(c)) => nonblocking_consumer(c, o.key.0),
                        _ => false,
                    });
                    let senders = if multi { trng.range(1, nthreads as u64) as usize } else { 1 };
                    let first = trng.usize_below(nthreads);
                    for k in 0..senders {
                        let t = (first + k) % nthreads;
                        for _ in 0..trng.range(1, 3) {
                            next_v += 1;
                            threads[t].push(ThrOp::Resolve { site: o.key.0, arg: o.key.1, v: next_v });
                        }
                    }
                }
                _ => {}
            }
        }
        for (t, ops) in threads.iter_mut().enumerate() {
            if trng.chance(1, 2) {
                ops.push(ThrOp::Event(Event::Noop));
            }
            if trng.chance(1, 3) {
                ops.push(ThrOp::View);
            }
            if trng.chance(1, 3) {
                let mut g = ProgGen::new(&mut trng, cfg.clone(), 50_000 + 1000 * t as u32);
                let mut c = g.cmd(1);
                strip_takes(&mut c);
                ops.push(ThrOp::Event(Event::Run(c)));
            }
            // items of one stream stay in order within a thread; everything else is shuffled around them
            let mut idx: Vec<usize> = (0..ops.len()).collect();
            trng.shuffle(&mut idx);
            let mut shuffled: Vec<ThrOp> = idx.iter().map(|i| ops[*i].clone()).collect();
            // restore ascending values per stream key (values encode send order)
            let mut per_key: BTreeMap<ReqKey, Vec<u64>> = BTreeMap::new();
            for op in &shuffled {
                if let ThrOp::Resolve { site, arg, v } = op {
                    per_key.entry((*site, *arg)).or_default().push(*v);
                }
            }
            for vs in per_key.values_mut() {
                vs.sort();
                vs.reverse();
            }
            for op in shuffled.iter_mut() {
                if let ThrOp::Resolve { site, arg, v } = op {
                    *v = per_key.get_mut(&(*site, *arg)).unwrap().pop().unwrap();
                }
            }
            *ops = shuffled;
        }

        // schedule: at most d preemptions at random decision indices
        let mut xrng = rng.fork("schedule");
        let d = xrng.range(0, 4) as usize;
        let horizon = *xrng.pick(&[12u64, 30, 60, 120, 250]);
        let mut preempt_at: Vec<(u32, u8)> = (0..d).map(|_| (xrng.below(horizon) as u32, xrng.below(250) as u8)).collect();
        preempt_at.sort();
        preempt_at.dedup_by_key(|p| p.0);

        // ... and, in half of the runs, one or two more at early occurrences of named points (where
        // threads actually meet: lock acquisitions, the waker's publish/notify steps, the eviction test)
        const MEETING_POINTS: &[&str] = &[
            "mutex.lock",
            "mutex.lock",
            "mutex.lock",
            "rwlock.write",
            "rwlock.write",
            "rwlock.read",
            "cmd.settled",
            "cmd.settled",
            "cmd.wake.before_send",
            "cmd.wake.after_send",
            "cmd.wake.after_store",
            "cmd.run_task.after_poll",
            "cmd.run_task.between_reads",
            "core.process.before_lock",
            "core.process.before_drain",
            "core.process_event.after_update",
            "core.resolve.entry",
            "exec.run_task.taken",
            "exec.run_task.pending",
            "exec.run_task.completed",
            "exec.run_all.ready",
            "exec.run_all.spawned",
            "app.update.inside",
            "app.view.inside",
        ];
        let mut at_point: Vec<(String, u32, u8)> = vec![];
        if xrng.chance(1, 2) {
            for _ in 0..xrng.range(1, 2) {
                let name = *xrng.pick(MEETING_POINTS);
                let k = if xrng.chance(2, 3) { xrng.below(6) } else { xrng.below(30) } as u32;
                at_point.push((name.to_string(), k, xrng.below(250) as u8));
            }
        }

        let mut scn = ThrScn {
            host,
            prologue,
            threads,
            epilogue: vec![],
            schedule: Schedule { preempt_at, at_point, spinner_comes_back: xrng.chance(1, 2) },
            hash_seed: xrng.next_u64(),
        };
        scn.epilogue = epilogue_for(&scn);
        scn
    }
}

/// deterministic drain computed on the reference: one more item for every live stream (the
/// subscription must still be alive), then every stream ended (where the host can), every
/// one-shot answered
fn epilogue_for(s: &ThrScn) -> Vec<Vec<Action>> {
    let Some((mut m, _, _)) = sequential_model(s) else { return vec![] };
    let none = BTreeSet::new();
    let mut steps = vec![];
    let mut v = 8_000_000u64;
    let live: Vec<ReqKey> = m.outstanding().iter().filter(|o| o.arity == Arity::Many && o.rx_alive).map(|o| o.key).collect();
    for k in live {
        v += 1;
        let a = Action::Resolve { site: k.0, arg: k.1, v };
        apply_to_model(&mut m, &a);
        steps.push(vec![a]);
        m.settle(&none);
    }
    for _ in 0..300 {
        let outs = m.outstanding();
        let act = if let Some(o) = outs.iter().find(|o| o.arity == Arity::Many && o.droppable && !s.host.is_bridge()) {
            Action::Drop { site: o.key.0, arg: o.key.1 }
        } else if let Some(o) = outs.iter().find(|o| o.arity == Arity::Once && !o.resolved) {
            v += 1;
            Action::Resolve { site: o.key.0, arg: o.key.1, v }
        } else {
            break;
        };
        apply_to_model(&mut m, &act);
        let is_drop = matches!(act, Action::Drop { .. });
        steps.push(vec![act]);
        if is_drop {
            // a drop is not a call: flush with a Noop
            let n = Action::Event(Event::Noop);
            apply_to_model(&mut m, &n);
            steps.push(vec![n]);
        }
        m.settle(&none);
    }
    steps
}

// ------------------------------------------------------------------------------------------------
// execution

struct ThreadResult {
    effects: Vec<Vec<u8>>,        // bridge: returned byte batches
    typed: Vec<EffectDesc>,       // typed: descs (requests are put back on the shelf by the owner)
    outcomes: Vec<Outcome>,
    views: Vec<Vec<LogEntry>>,
    panic: Option<(String, String)>,
    errors: Vec<String>,
}

fn empty_result() -> ThreadResult {
    ThreadResult { effects: vec![], typed: vec![], outcomes: vec![], views: vec![], panic: None, errors: vec![] }
}

fn strip_seq(e: &LogEntry) -> LogEntry {
    match e {
        LogEntry::Em { em_label, em_start, tag, val, trace, .. } => {
            LogEntry::Em { em_label: *em_label, em_start: *em_start, seq: 0, tag: *tag, val: *val, trace: trace.clone() }
        }
        other => other.clone(),
    }
}

fn multiset_log(log: &[LogEntry]) -> Vec<LogEntry> {
    let mut v: Vec<LogEntry> = log.iter().map(strip_seq).collect();
    v.sort();
    v
}

fn eff_keys(es: &[EffectDesc]) -> Vec<(u32, u64, u8, Vec<u8>)> {
    let mut v: Vec<_> = es.iter().map(|e| (e.site, e.arg, e.op as u8, e.trace.clone())).collect();
    v.sort();
    v
}

/// every view a caller sees must contain each emitter's events as a gap-free prefix
fn view_prefix_closed(view: &[LogEntry]) -> Result<(), String> {
    let mut last = BTreeMap::new();
    emitter_order_ok(view, &mut last)
}

struct Totals {
    effects: Vec<EffectDesc>,
    thread_outcomes: Vec<Vec<Outcome>>,
    views: Vec<Vec<LogEntry>>,
    final_log: Vec<LogEntry>,
    epilogue_outcomes: Vec<Outcome>,
    stats_after_join: crate::cmd::hosts::HostStats,
    report: ctl::RunReport,
}

fn run_single(host: &mut dyn Host, steps: &[Vec<Action>], effects: &mut Vec<EffectDesc>, outcomes: &mut Vec<Outcome>) -> Result<(), Violation> {
    for st in steps {
        for a in st {
            match a {
                Action::Event(ev) => host.send_event(ev.clone()).map_err(|e| viol("host_error", e))?,
                Action::Resolve { site, arg, v } => {
                    if host.holds((*site, *arg)) {
                        match host.resolve((*site, *arg), *v) {
                            Ok(o) => outcomes.push(o),
                            Err(e) => {
                                let clause = if let Some(rest) = e.strip_prefix("panic:") { format!("panic:{}", rest.split(':').next().unwrap_or("?")) } else { "host_error".into() };
                                return Err(viol(&clause, format!("single-threaded phase: resolve ({site},{arg}): {e}")));
                            }
                        }
                    } else {
                        outcomes.push(Outcome::Unknown);
                    }
                }
                Action::Drop { site, arg } => {
                    host.drop_req((*site, *arg));
                }
                _ => {}
            }
        }
        effects.extend(host.settle().effects);
        if let Some(e) = host.take_errors().into_iter().next() {
            return Err(viol("bridge_invariant", e));
        }
    }
    Ok(())
}

fn run_typed<A: SimApp + Sync>(s: &ThrScn) -> Result<Totals, Violation>
where
    A::Effect: SimEffect,
    A::Model: Send + Sync,
    A::Capabilities: Send + Sync,
    Core2<A>: Sync,
{
    let mut host = CoreHost::<A>::new();
    let mut effects = vec![];
    let mut pro_out = vec![];
    run_single(&mut host, &s.prologue, &mut effects, &mut pro_out)?;

    // deal the requests to their threads
    let n = s.threads.len();
    let mut owned: Vec<BTreeMap<ReqKey, Held>> = (0..n).map(|_| BTreeMap::new()).collect();
    for (t, ops) in s.threads.iter().enumerate() {
        for op in ops {
            if let ThrOp::Resolve { site, arg, .. } = op {
                let k = (*site, *arg);
                if !owned[t].contains_key(&k) {
                    if let Some(h) = host.shelf.reqs.remove(&k) {
                        owned[t].insert(k, h);
                    }
                }
            }
        }
    }
    let core = host.core.as_ref().expect("core");
    let ctl = Ctl::new(n, s.schedule.clone());
    let mut results: Vec<(ThreadResult, Vec<A::Effect>, BTreeMap<ReqKey, Held>)> = vec![];
    let report = std::thread::scope(|scope| {
        let mut handles = vec![];
        for (t, mut mine) in owned.into_iter().enumerate() {
            let ctl = ctl.clone();
            let ops = s.threads[t].clone();
            crate::runner::set_hash_seed(s.hash_seed);
            handles.push(scope.spawn(move || {
                ctl.enter(t);
                let mut res = empty_result();
                let mut effs: Vec<A::Effect> = vec![];
                let r = catch(|| {
                    for op in &ops {
                        match op {
                            ThrOp::Resolve { site, arg, v } => {
                                let Some(h) = mine.get_mut(&(*site, *arg)) else {
                                    res.outcomes.push(Outcome::Unknown);
                                    continue;
                                };
                                let r = match h {
                                    Held::A(r) => core.resolve(r, *v),
                                    Held::B(r) => core.resolve(r, out_b(*v)),
                                };
                                match r {
                                    Ok(e) => {
                                        effs.extend(e);
                                        res.outcomes.push(Outcome::Accepted);
                                    }
                                    Err(_) => res.outcomes.push(Outcome::Rejected),
                                }
                            }
                            ThrOp::Event(ev) => effs.extend(core.process_event(ev.clone())),
                            ThrOp::View => res.views.push(core.view().log),
                        }
                    }
                });
                if let Err(p) = r {
                    res.panic = Some(p);
                }
                ctl.finish(t);
                (res, effs, mine)
            }));
        }
        let rep = ctl.run_to_completion(Duration::from_secs(10));
        for h in handles {
            match h.join() {
                Ok(x) => results.push(x),
                Err(_) => crate::runner::harness_error("simulated thread died outside catch"),
            }
        }
        rep
    });
    let report = match report {
        Ok(r) => r,
        Err(e) => crate::runner::harness_error(&format!("thread controller: {e}")),
    };
    let mut thread_outcomes = vec![];
    let mut views = vec![];
    for (res, effs, mine) in results {
        if let Some((loc, msg)) = res.panic {
            if msg.contains("resolve_result.is_ok()") {
                // debug_assert escalation of a rejected resolve: a live request was rejected under the caller
                return Err(viol("live_request_rejected", format!("a resolve of a live request was rejected while other threads were calling in ({loc})")));
            }
            return Err(viol(&format!("panic:{loc}"), format!("panic in a concurrent caller at {loc}: {msg}")));
        }
        host.shelf.absorb(effs, &mut effects);
        host.shelf.reqs.extend(mine);
        thread_outcomes.push(res.outcomes);
        views.extend(res.views);
    }
    let stats_after_join = host.stats();
    let mut epilogue_outcomes = vec![];
    run_single(&mut host, &s.epilogue, &mut effects, &mut epilogue_outcomes)?;
    let final_log = host.full_log();
    Ok(Totals { effects, thread_outcomes, views, final_log, epilogue_outcomes, stats_after_join, report })
}

/// alias used only to state the Sync bound readably
type Core2<A> = crux_core::Core<A>;

fn run_bridge<A: SimApp + Sync>(s: &ThrScn, wire: Wire) -> Result<Totals, Violation>
where
    A::Effect: SimEffect,
    <A::Effect as crux_core::Effect>::Ffi: DeserializeOwned + FfiDesc,
    crate::cmd::hosts::AnyBridge<A>: Sync,
{
    let mut host = BridgeHost::<A>::new(wire, s.host);
    let mut effects = vec![];
    let mut pro_out = vec![];
    run_single(&mut host, &s.prologue, &mut effects, &mut pro_out)?;
    let ids = host.ids.clone();
    let kinds_before: BTreeMap<u32, crux_core::verif::EntryKind> = host.bridge.registry().into_iter().collect();
    let n = s.threads.len();
    let ctl = Ctl::new(n, s.schedule.clone());
    let bridge = &host.bridge;
    let mut results: Vec<ThreadResult> = vec![];
    let report = std::thread::scope(|scope| {
        let mut handles = vec![];
        for t in 0..n {
            let ctl = ctl.clone();
            let ops = s.threads[t].clone();
            let ids = &ids;
            crate::runner::set_hash_seed(s.hash_seed);
            handles.push(scope.spawn(move || {
                ctl.enter(t);
                let mut res = empty_result();
                let r = catch(|| {
                    for op in &ops {
                        match op {
                            ThrOp::Resolve { site, arg, v } => {
                                let Some((id, opn)) = ids.get(&(*site, *arg)).copied() else {
                                    res.outcomes.push(Outcome::Unknown);
                                    continue;
                                };
                                let bytes = match opn {
                                    crate::cmd::model::OpName::A => encode(wire, v),
                                    crate::cmd::model::OpName::B => encode(wire, &out_b(*v)),
                                    crate::cmd::model::OpName::Render => encode(wire, &()),
                                };
                                match bridge.handle_response(id, &bytes) {
                                    Ok(out) => {
                                        res.effects.push(out);
                                        res.outcomes.push(Outcome::Accepted);
                                    }
                                    Err(crux_core::bridge::BridgeError::ProcessResponse(_)) => res.outcomes.push(Outcome::Rejected),
                                    Err(e) => res.errors.push(format!("valid response rejected: {e}")),
                                }
                            }
                            ThrOp::Event(ev) => match bridge.process_event(&encode(wire, ev)) {
                                Ok(out) => res.effects.push(out),
                                Err(e) => res.errors.push(format!("valid event rejected: {e}")),
                            },
                            ThrOp::View => match bridge.view().map_err(|e| e.to_string()).and_then(|b| crate::cmd::hosts::decode::<View>(wire, &b)) {
                                Ok(v) => res.views.push(v.log),
                                Err(e) => res.errors.push(format!("view: {e}")),
                            },
                        }
                    }
                });
                if let Err(p) = r {
                    res.panic = Some(p);
                }
                ctl.finish(t);
                res
            }));
        }
        let rep = ctl.run_to_completion(Duration::from_secs(10));
        for h in handles {
            match h.join() {
                Ok(x) => results.push(x),
                Err(_) => crate::runner::harness_error("simulated thread died outside catch"),
            }
        }
        rep
    });
    let report = match report {
        Ok(r) => r,
        Err(e) => crate::runner::harness_error(&format!("thread controller: {e}")),
    };
    let mut thread_outcomes = vec![];
    let mut views = vec![];
    let mut batches = vec![];
    for res in results {
        if let Some((loc, msg)) = res.panic {
            return Err(viol(&format!("panic:{loc}"), format!("panic in a concurrent caller at {loc}: {msg}")));
        }
        if let Some(e) = res.errors.into_iter().next() {
            return Err(viol("bridge_error", e));
        }
        batches.extend(res.effects);
        thread_outcomes.push(res.outcomes);
        views.extend(res.views);
    }
    // one-shots answered in the threaded phase are consumed (their ids may have been handed out again)
    for ops in &s.threads {
        for op in ops {
            if let ThrOp::Resolve { site, arg, .. } = op {
                let k = (*site, *arg);
                if let Some((id, _)) = host.ids.get(&k).copied() {
                    if kinds_before.get(&id) == Some(&crux_core::verif::EntryKind::Once) {
                        host.ids.remove(&k);
                    }
                }
            }
        }
    }
    for b in batches {
        host.absorb_bytes(&b).map_err(|e| viol("bridge_error", e))?;
    }
    effects.extend(host.settle().effects);
    if let Some(e) = host.take_errors().into_iter().next() {
        return Err(viol("bridge_invariant", e));
    }
    let stats_after_join = host.stats();
    let mut epilogue_outcomes = vec![];
    run_single(&mut host, &s.epilogue, &mut effects, &mut epilogue_outcomes)?;
    let final_log = host.full_log();
    Ok(Totals { effects, thread_outcomes, views, final_log, epilogue_outcomes, stats_after_join, report })
}

impl Check for ThrCheck {
    type Scn = ThrScn;

    fn id(&self) -> &'static str {
        "C08"
    }
    fn rule(&self) -> String {
        "a single-threaded prologue starts generated programs (command and legacy API) so that one-shots are outstanding and streams live; the requests are dealt to 2-3 simulated shell threads with short scripts (resolve, stream items - over the bridge several threads answer the same stream id -, process_event(Run/Noop), view) chosen to commute; the schedule is explicit: the running thread continues at every schedule point except at d<=4 chosen decision indices where the baton goes to another thread (lock waits and the executor's Unavailable spin are forced switches); a run is non-trivial when at least one preemption actually fired and at least 2 threads had operations; distinct = distinct hash of (host, program shapes, thread scripts' kinds, the executed (thread, point) trace)".to_string()
    }
    fn assumptions(&self) -> Vec<String> {
        vec![
            "interleavings are explored at the granularity of the schedule points placed in crux_core (executor slots and queues, command wakers and the eviction check, Core::process, registry and legacy shared-state locks) under sequential consistency; reorderings below that granularity and weak-memory effects are not explored".into(),
            "thread scripts commute (distinct requests, independent programs, no select/abort/take), so the sequential outcome is unique up to the order of items from different threads and the oracle needs no search over linearisations".into(),
            "the reference model gives the sequential outcome; totals (effects, applied events) are compared as multisets, per-emitter order on the real log".into(),
        ]
    }
    fn components(&self) -> Value {
        json!({
            "real": ["crux_core::Core, QueuingExecutor, Command executor and wakers, Bridge + registry, legacy ShellRequest/ShellStream, crossbeam-channel, futures mpsc", "real OS threads, parked and released one at a time"],
            "stub": ["app (interpreter app)"],
            "simulated": ["the scheduler (baton-passing controller), the shell threads' scripts"],
        })
    }
    fn runs(&self, tier: Tier) -> u64 {
        match tier {
            Tier::Quick => 60_000,
            Tier::Thorough => 1_500_000,
        }
    }
    fn generate(&self, rng: &mut Rng, tier: Tier) -> ThrScn {
        self.gen(rng, tier == Tier::Thorough)
    }
    fn hash_seed(&self, s: &ThrScn) -> u64 {
        s.hash_seed
    }
    fn run_timeout(&self) -> Duration {
        Duration::from_secs(30)
    }

    fn execute(&self, s: &ThrScn, cov: &mut Cov) -> Result<RunInfo, Violation> {
        let Some((mut m, mut model_effects, model_outcomes)) = sequential_model(s) else {
            return Ok(RunInfo { shape: 0, nontrivial: false, discarded: true });
        };
        // the epilogue on the reference
        let none = BTreeSet::new();
        let mut model_epi = vec![];
        for st in &s.epilogue {
            for a in st {
                if let Action::Resolve { site, arg, v } = a {
                    model_epi.push(m.resolve((*site, *arg), *v));
                } else {
                    apply_to_model(&mut m, a);
                }
            }
            model_effects.extend(m.settle(&none).effects);
        }
        if m.g.ambiguous.is_some() || m.g.sticky.is_some() {
            return Ok(RunInfo { shape: 0, nontrivial: false, discarded: true });
        }
        cov.bump(&format!("host:{:?}", s.host));
        let totals = match s.host {
            HostSel::CoreFx => run_typed::<app2::App>(s)?,
            HostSel::CoreCaps => run_typed::<app1::App>(s)?,
            HostSel::BridgeBincode => run_bridge::<app1::App>(s, Wire::Bincode)?,
            HostSel::BridgeJson => run_bridge::<app1::App>(s, Wire::Json)?,
            HostSel::BridgeBincodeFx => run_bridge::<app2::App>(s, Wire::Bincode)?,
            HostSel::Direct | HostSel::Stream => return Err(viol("host_error", "no direct host in thrsim".into())),
        };
        for (k, v) in &totals.report.point_counts {
            cov.add(&format!("point:{k}"), *v);
        }
        cov.add("sim_steps", u64::from(totals.report.decisions));
        cov.add("fault:preemption", u64::from(totals.report.preemptions));
        cov.add("fault:lock_wait_switch", totals.report.blocked_events);
        cov.add("probe:unavailable_requeue", totals.report.yield_events);
        if std::env::var("VERIF_DEBUG").is_ok() {
            eprintln!("trace: {}", totals.report.trace.iter().map(|(t, p)| format!("{t}:{p}")).collect::<Vec<_>>().join(" "));
        }
        for (t, p) in &totals.report.trace {
            cov.trace(&format!("{t}{p}"));
        }

        // 1. nothing rejected under the caller
        for (t, (real, model)) in totals.thread_outcomes.iter().zip(model_outcomes.iter()).enumerate() {
            if real != model {
                let torn = real.iter().zip(model.iter()).any(|(r, m)| *r == Outcome::Rejected && *m == Outcome::Accepted);
                let clause = if torn { "live_request_rejected" } else { "resolve_outcome" };
                return Err(viol(clause, format!("thread {t}: resolve outcomes {real:?}, sequential reference {model:?} (a live subscription or request was torn down under the caller)")));
            }
        }
        // 2. every view is a per-emitter prefix
        for v in &totals.views {
            if let Err(e) = view_prefix_closed(v) {
                return Err(viol("view_not_prefix_closed", format!("a concurrent view() saw events out of order: {e}")));
            }
        }
        // 3. quiescent when all calls have returned
        let st = totals.stats_after_join;
        if st.ready_queue != 0 || st.spawn_queue != 0 || st.pending_events != 0 || st.pending_effects != 0 {
            return Err(viol("not_quiescent", format!("all concurrent calls have returned but the runtime queues are not empty: {st:?}")));
        }
        // 4. per-emitter order and exactly-once on the final log
        let mut last = BTreeMap::new();
        if let Err(e) = emitter_order_ok(&totals.final_log, &mut last) {
            return Err(viol("event_order", format!("events of one task were applied out of emission order: {e}")));
        }
        if multiset_log(&totals.final_log) != multiset_log(&m.log) {
            let real = multiset_log(&totals.final_log);
            let model = multiset_log(&m.log);
            let missing: Vec<_> = model.iter().filter(|e| !real.contains(e)).take(4).collect();
            let extra: Vec<_> = real.iter().filter(|e| !model.contains(e)).take(4).collect();
            let clause = if !missing.is_empty() { "events:lost" } else { "events:duplicated_or_extra" };
            return Err(viol(clause, format!("applied events differ from every sequential order: missing {missing:?} extra {extra:?} (real {} entries, reference {})", real.len(), model.len())));
        }
        // 5. each effect returned by exactly one call
        if eff_keys(&totals.effects) != eff_keys(&model_effects) {
            let real = eff_keys(&totals.effects);
            let model = eff_keys(&model_effects);
            let missing: Vec<_> = model.iter().filter(|e| !real.contains(e)).take(4).collect();
            let extra: Vec<_> = real.iter().filter(|e| !model.contains(e)).take(4).collect();
            let clause = if !missing.is_empty() { "effects:lost" } else { "effects:duplicated_or_extra" };
            return Err(viol(clause, format!("effects returned by all calls differ from the sequential outcome: missing {missing:?} extra {extra:?}")));
        }
        // 6. subscriptions still alive, requests still resolvable afterwards
        if totals.epilogue_outcomes != model_epi {
            return Err(viol("epilogue_outcome", format!("after the concurrent phase: resolve outcomes {:?}, reference {:?} (a live subscription was torn down)", totals.epilogue_outcomes, model_epi)));
        }

        let mut shape = fnv(format!("{:?}", s.host).as_bytes());
        for st in &s.prologue {
            for a in st {
                if let Action::Event(Event::Run(c)) = a {
                    shape = mix(shape, shape_of_cmd(c));
                }
            }
        }
        for (t, p) in &totals.report.trace {
            shape = mix(shape, mix(u64::from(*t), fnv(p.as_bytes())));
        }
        let active = s.threads.iter().filter(|t| !t.is_empty()).count();
        Ok(RunInfo { shape, nontrivial: totals.report.preemptions > 0 && active >= 2, discarded: false })
    }

    fn shrink(&self, s: &ThrScn) -> Vec<ThrScn> {
        let mut out = vec![];
        // fewer preemptions first: the schedule is the interesting part
        for i in 0..s.schedule.preempt_at.len() {
            let mut sc = s.schedule.clone();
            sc.preempt_at.remove(i);
            out.push(ThrScn { schedule: sc, ..s.clone() });
        }
        for i in 0..s.schedule.at_point.len() {
            let mut sc = s.schedule.clone();
            sc.at_point.remove(i);
            out.push(ThrScn { schedule: sc, ..s.clone() });
        }
        // drop thread operations
        for t in 0..s.threads.len() {
            for i in 0..s.threads[t].len() {
                let mut th = s.threads.clone();
                th[t].remove(i);
                let mut c = ThrScn { threads: th, ..s.clone() };
                c.epilogue = epilogue_for(&c);
                out.push(c);
            }
        }
        // shorter prologue / smaller programs
        for i in (0..s.prologue.len()).rev() {
            let mut p = s.prologue.clone();
            p.remove(i);
            let mut c = ThrScn { prologue: p, ..s.clone() };
            c.epilogue = epilogue_for(&c);
            out.push(c);
        }
        for i in 0..s.prologue.len() {
            for j in 0..s.prologue[i].len() {
                if let Action::Event(Event::Run(cmd)) = &s.prologue[i][j] {
                    for c2 in crate::cmd::shrink::shrink_cmd(cmd) {
                        let mut p = s.prologue.clone();
                        p[i][j] = Action::Event(Event::Run(c2));
                        let mut c = ThrScn { prologue: p, ..s.clone() };
                        c.epilogue = epilogue_for(&c);
                        out.push(c);
                    }
                }
            }
        }
        // earlier preemption points
        for i in 0..s.schedule.preempt_at.len() {
            let (d, salt) = s.schedule.preempt_at[i];
            if d > 0 {
                let mut sc = s.schedule.clone();
                sc.preempt_at[i] = (d / 2, salt);
                out.push(ThrScn { schedule: sc, ..s.clone() });
            }
        }
        out
    }

    fn expected_probes(&self) -> Vec<&'static str> {
        vec!["unavailable_requeue"]
    }
}
