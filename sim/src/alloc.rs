//! Allocation meter: a counting global allocator used as an oracle for "no unbounded
//! allocation" (C12). Counts bytes requested, never frees from the count.

use std::alloc::{GlobalAlloc, Layout, System};
use std::sync::atomic::{AtomicU64, Ordering};

pub struct Counting;

pub static REQUESTED: AtomicU64 = AtomicU64::new(0);
pub static LARGEST: AtomicU64 = AtomicU64::new(0);

unsafe impl GlobalAlloc for Counting {
    unsafe fn alloc(&self, layout: Layout) -> *mut u8 {
        let n = layout.size() as u64;
        REQUESTED.fetch_add(n, Ordering::Relaxed);
        LARGEST.fetch_max(n, Ordering::Relaxed);
        System.alloc(layout)
    }
    unsafe fn dealloc(&self, ptr: *mut u8, layout: Layout) {
        System.dealloc(ptr, layout);
    }
    unsafe fn alloc_zeroed(&self, layout: Layout) -> *mut u8 {
        let n = layout.size() as u64;
        REQUESTED.fetch_add(n, Ordering::Relaxed);
        LARGEST.fetch_max(n, Ordering::Relaxed);
        System.alloc_zeroed(layout)
    }
    unsafe fn realloc(&self, ptr: *mut u8, layout: Layout, new_size: usize) -> *mut u8 {
        let n = new_size as u64;
        REQUESTED.fetch_add(n.saturating_sub(layout.size() as u64), Ordering::Relaxed);
        LARGEST.fetch_max(n, Ordering::Relaxed);
        System.realloc(ptr, layout, new_size)
    }
}

pub fn requested() -> u64 {
    REQUESTED.load(Ordering::Relaxed)
}
