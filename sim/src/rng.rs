//! Hand-written PRNG (xoshiro256** seeded by SplitMix64) so that generation is bit-stable.

#[derive(Clone, Debug)]
pub struct Rng {
    s: [u64; 4],
}

pub fn splitmix(x: &mut u64) -> u64 {
    *x = x.wrapping_add(0x9E37_79B9_7F4A_7C15);
    let mut z = *x;
    z = (z ^ (z >> 30)).wrapping_mul(0xBF58_476D_1CE4_E5B9);
    z = (z ^ (z >> 27)).wrapping_mul(0x94D0_49BB_1331_11EB);
    z ^ (z >> 31)
}

/// FNV-1a over bytes, used for stable hashing of labels and shapes.
pub fn fnv(bytes: &[u8]) -> u64 {
    let mut h: u64 = 0xcbf2_9ce4_8422_2325;
    for b in bytes {
        h ^= u64::from(*b);
        h = h.wrapping_mul(0x0000_0100_0000_01B3);
    }
    h
}

pub fn mix(a: u64, b: u64) -> u64 {
    let mut x = a ^ b.rotate_left(32) ^ 0x5851_F42D_4C95_7F2D;
    let r = splitmix(&mut x);
    r ^ splitmix(&mut x)
}

impl Rng {
    pub fn new(seed: u64) -> Self {
        let mut x = seed;
        let s = [
            splitmix(&mut x),
            splitmix(&mut x),
            splitmix(&mut x),
            splitmix(&mut x),
        ];
        Rng { s }
    }

    /// Independent sub-stream named by `label`.
    pub fn fork(&self, label: &str) -> Rng {
        Rng::new(mix(self.s[0] ^ self.s[2], fnv(label.as_bytes())))
    }

    pub fn next_u64(&mut self) -> u64 {
        let result = self.s[1].wrapping_mul(5).rotate_left(7).wrapping_mul(9);
        let t = self.s[1] << 17;
        self.s[2] ^= self.s[0];
        self.s[3] ^= self.s[1];
        self.s[1] ^= self.s[2];
        self.s[0] ^= self.s[3];
        self.s[2] ^= t;
        self.s[3] = self.s[3].rotate_left(45);
        result
    }

    /// Uniform in 0..n (n > 0)
    pub fn below(&mut self, n: u64) -> u64 {
        debug_assert!(n > 0);
        // multiply-shift; bias is irrelevant here
        ((u128::from(self.next_u64()) * u128::from(n)) >> 64) as u64
    }

    pub fn usize_below(&mut self, n: usize) -> usize {
        self.below(n as u64) as usize
    }

    /// Inclusive range
    pub fn range(&mut self, lo: u64, hi: u64) -> u64 {
        lo + self.below(hi - lo + 1)
    }

    /// True with probability num/den
    pub fn chance(&mut self, num: u64, den: u64) -> bool {
        self.below(den) < num
    }

    pub fn pick<'a, T>(&mut self, xs: &'a [T]) -> &'a T {
        &xs[self.usize_below(xs.len())]
    }

    /// Pick an index according to integer weights
    pub fn weighted(&mut self, weights: &[u64]) -> usize {
        let total: u64 = weights.iter().sum();
        debug_assert!(total > 0);
        let mut r = self.below(total);
        for (i, w) in weights.iter().enumerate() {
            if r < *w {
                return i;
            }
            r -= *w;
        }
        weights.len() - 1
    }

    pub fn shuffle<T>(&mut self, xs: &mut [T]) {
        for i in (1..xs.len()).rev() {
            let j = self.usize_below(i + 1);
            xs.swap(i, j);
        }
    }

    pub fn bytes(&mut self, n: usize) -> Vec<u8> {
        (0..n).map(|_| self.next_u64() as u8).collect()
    }
}
