//! One-step-smaller variants of programs and scenarios (greedy delta debugging).

use super::ast::{Chain, Cmd, Stmt, Task};
use super::gen::{Action, Scenario};
use super::ops::Event;

pub fn shrink_cmd(c: &Cmd) -> Vec<Cmd> {
    let mut out = vec![];
    if !matches!(c, Cmd::Done) {
        out.push(Cmd::Done);
    }
    match c {
        Cmd::Done | Cmd::Event { .. } | Cmd::Notify(_) | Cmd::Render => {}
        Cmd::Chain(ch) => {
            for i in 0..ch.stages.len() {
                let mut c2 = ch.clone();
                c2.stages.remove(i);
                out.push(Cmd::Chain(c2));
            }
            if let Some(k) = &ch.cont {
                out.push(Cmd::Chain(Chain { cont: None, ..ch.clone() }));
                for k2 in shrink_cmd(k) {
                    out.push(Cmd::Chain(Chain { cont: Some(Box::new(k2)), ..ch.clone() }));
                }
            }
        }
        Cmd::Then(a, b) | Cmd::And(a, b) => {
            out.push((**a).clone());
            out.push((**b).clone());
            let mk = |x: Cmd, y: Cmd| if matches!(c, Cmd::Then(..)) { Cmd::Then(Box::new(x), Box::new(y)) } else { Cmd::And(Box::new(x), Box::new(y)) };
            for a2 in shrink_cmd(a) {
                out.push(mk(a2, (**b).clone()));
            }
            for b2 in shrink_cmd(b) {
                out.push(mk((**a).clone(), b2));
            }
        }
        Cmd::All(xs) => {
            for i in 0..xs.len() {
                out.push(xs[i].clone());
                let mut v = xs.clone();
                v.remove(i);
                out.push(Cmd::All(v));
            }
            for i in 0..xs.len() {
                for x2 in shrink_cmd(&xs[i]) {
                    let mut v = xs.clone();
                    v[i] = x2;
                    out.push(Cmd::All(v));
                }
            }
        }
        Cmd::MapEffect(k, x) => {
            out.push((**x).clone());
            out.extend(shrink_cmd(x).into_iter().map(|y| Cmd::MapEffect(*k, Box::new(y))));
        }
        Cmd::MapEvent(k, x) => {
            out.push((**x).clone());
            out.extend(shrink_cmd(x).into_iter().map(|y| Cmd::MapEvent(*k, Box::new(y))));
        }
        Cmd::IntoFrom(x) => {
            out.push((**x).clone());
            out.extend(shrink_cmd(x).into_iter().map(|y| Cmd::IntoFrom(Box::new(y))));
        }
        Cmd::Abortable(h, x) => {
            out.push((**x).clone());
            out.extend(shrink_cmd(x).into_iter().map(|y| Cmd::Abortable(*h, Box::new(y))));
        }
        Cmd::Async(t) => out.extend(shrink_task(t).into_iter().map(Cmd::Async)),
        Cmd::Legacy(t) => out.extend(shrink_task(t).into_iter().map(Cmd::Legacy)),
    }
    out
}

fn shrink_task(t: &Task) -> Vec<Task> {
    shrink_stmts(&t.stmts).into_iter().map(|s| Task { label: t.label, stmts: s }).collect()
}

fn shrink_stmts(stmts: &[Stmt]) -> Vec<Vec<Stmt>> {
    let mut out = vec![];
    for i in 0..stmts.len() {
        let mut v = stmts.to_vec();
        v.remove(i);
        out.push(v);
    }
    for i in 0..stmts.len() {
        for s2 in shrink_stmt(&stmts[i]) {
            let mut v = stmts.to_vec();
            v[i] = s2;
            out.push(v);
        }
    }
    out
}

fn shrink_stmt(s: &Stmt) -> Vec<Stmt> {
    let mut out = vec![];
    match s {
        Stmt::Emit { tag, cont: Some(c) } => {
            out.push(Stmt::Emit { tag: *tag, cont: None });
            out.extend(shrink_cmd(c).into_iter().map(|c2| Stmt::Emit { tag: *tag, cont: Some(Box::new(c2)) }));
        }
        Stmt::StreamLoop { leaf, body, take } => {
            for b2 in shrink_stmts(body) {
                out.push(Stmt::StreamLoop { leaf: leaf.clone(), body: b2, take: *take });
            }
            if let Some(t) = take {
                if *t > 1 {
                    out.push(Stmt::StreamLoop { leaf: leaf.clone(), body: body.clone(), take: Some(t - 1) });
                }
            }
        }
        Stmt::Spawn { task, slot } => {
            out.extend(shrink_task(task).into_iter().map(|t| Stmt::Spawn { task: t, slot: *slot }));
        }
        Stmt::SpawnChan { c, child_sends, task, slot } => {
            out.extend(shrink_task(task).into_iter().map(|t| Stmt::SpawnChan { c: *c, child_sends: *child_sends, task: t, slot: *slot }));
        }
        Stmt::JoinAll(ts) | Stmt::SelectFirst(ts) => {
            let is_join = matches!(s, Stmt::JoinAll(_));
            let mk = |v: Vec<Task>| if is_join { Stmt::JoinAll(v) } else { Stmt::SelectFirst(v) };
            for i in 0..ts.len() {
                if ts.len() > 1 {
                    let mut v = ts.clone();
                    v.remove(i);
                    out.push(mk(v));
                }
                for t2 in shrink_task(&ts[i]) {
                    let mut v = ts.clone();
                    v[i] = t2;
                    out.push(mk(v));
                }
            }
        }
        Stmt::AwaitChain { first, stages } => {
            for i in 0..stages.len() {
                let mut v = stages.clone();
                v.remove(i);
                out.push(Stmt::AwaitChain { first: first.clone(), stages: v });
            }
            out.push(Stmt::Request(first.clone()));
        }
        Stmt::CapRequest(l) => out.push(Stmt::Request(l.clone())),
        Stmt::Burst { n, tag } if *n > 1 => {
            out.push(Stmt::Burst { n: n / 2, tag: *tag });
            out.push(Stmt::Burst { n: n - 1, tag: *tag });
        }
        Stmt::Yield(n) if *n > 1 => out.push(Stmt::Yield(n - 1)),
        _ => {}
    }
    out
}

pub fn shrink_scenario(s: &Scenario) -> Vec<Scenario> {
    let mut out = vec![];
    let n = s.steps.len();
    let with_steps = |steps: Vec<Vec<Action>>, drain_from: usize| Scenario { steps, drain_from, ..s.clone() };
    // cut the tail
    if n > 1 {
        out.push(with_steps(s.steps[..n / 2].to_vec(), s.drain_from.min(n / 2)));
        out.push(with_steps(s.steps[..n - 1].to_vec(), s.drain_from.min(n - 1)));
    }
    // delete a whole step
    for i in 0..n {
        let mut v = s.steps.clone();
        v.remove(i);
        out.push(with_steps(v, if i < s.drain_from { s.drain_from - 1 } else { s.drain_from }));
    }
    // delete one action of a batch
    for i in 0..n {
        if s.steps[i].len() > 1 {
            for j in 0..s.steps[i].len() {
                let mut v = s.steps.clone();
                v[i].remove(j);
                out.push(with_steps(v, s.drain_from));
            }
        }
    }
    // shrink programs
    for i in 0..n {
        for j in 0..s.steps[i].len() {
            if let Action::Event(Event::Run(c)) = &s.steps[i][j] {
                for c2 in shrink_cmd(c) {
                    let mut v = s.steps.clone();
                    v[i][j] = Action::Event(Event::Run(c2));
                    out.push(with_steps(v, s.drain_from));
                }
            }
        }
    }
    if s.buggify {
        out.push(Scenario { buggify: false, ..s.clone() });
    }
    out
}
