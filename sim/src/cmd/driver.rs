//! Executes an explicit scenario against a real host and checks every step against the
//! reference model (kept as a small set of candidate states where the properties leave the
//! timing of lazy reaping open).

use std::collections::{BTreeMap, BTreeSet};

use super::gen::{Action, Scenario};
use super::hosts::{make_host, Host, HostSel, StepObs};
use super::model::{EffectDesc, HostKind, Model, Outcome, StepOut};
use super::ops::{Event, LogEntry};
use crate::rng::{fnv, mix};
use crate::runner::{Cov, RunInfo, Violation};

#[derive(Clone, Debug, Default)]
pub struct Checks {
    /// property id used as signature prefix
    pub id: &'static str,
    /// compare each step with the reference model
    pub model: bool,
    /// quiescence of the runtime queues after each call (Core hosts)
    pub quiescence: bool,
    /// occupancy bounded by outstanding work; everything released at the end (C13)
    pub occupancy: bool,
    /// is_done per root (Direct)
    pub done: bool,
}

fn eff_key(e: &EffectDesc) -> (u32, u64, u8, Vec<u8>) {
    (e.site, e.arg, e.op as u8, e.trace.clone())
}

pub fn effects_equal(a: &[EffectDesc], b: &[EffectDesc]) -> bool {
    let mut x: Vec<_> = a.iter().map(eff_key).collect();
    let mut y: Vec<_> = b.iter().map(eff_key).collect();
    x.sort();
    y.sort();
    x == y
}

pub fn log_multiset_equal(a: &[LogEntry], b: &[LogEntry]) -> bool {
    let mut x = a.to_vec();
    let mut y = b.to_vec();
    x.sort();
    y.sort();
    x == y
}

/// events of one emitter must be applied in emission order
pub fn emitter_order_ok(log: &[LogEntry], last: &mut BTreeMap<(u32, u64), u32>) -> Result<(), String> {
    for e in log {
        if let LogEntry::Em { em_label, em_start, seq, .. } = e {
            let k = (*em_label, *em_start);
            let expect = last.get(&k).map_or(0, |s| s + 1);
            if *seq != expect {
                return Err(format!("emitter {k:?}: event seq {seq} applied where {expect} was due"));
            }
            last.insert(k, *seq);
        }
    }
    Ok(())
}

fn diff_effects(model: &[EffectDesc], real: &[EffectDesc]) -> (Vec<String>, Vec<String>) {
    let mut m: Vec<_> = model.iter().map(eff_key).collect();
    let mut r: Vec<_> = real.iter().map(eff_key).collect();
    m.sort();
    r.sort();
    let mut missing = vec![];
    let mut extra = vec![];
    let mut rr = r.clone();
    for x in &m {
        if let Some(p) = rr.iter().position(|y| y == x) {
            rr.remove(p);
        } else {
            missing.push(format!("{x:?}"));
        }
    }
    for y in rr {
        extra.push(format!("{y:?}"));
    }
    (missing, extra)
}

fn diff_log(model: &[LogEntry], real: &[LogEntry]) -> (Vec<String>, Vec<String>) {
    let mut rr = real.to_vec();
    let mut missing = vec![];
    for x in model {
        if let Some(p) = rr.iter().position(|y| y == x) {
            rr.remove(p);
        } else {
            missing.push(format!("{x:?}"));
        }
    }
    (missing, rr.iter().map(|y| format!("{y:?}")).collect())
}

fn subsets(z: &[u64]) -> Vec<BTreeSet<u64>> {
    if z.is_empty() {
        return vec![BTreeSet::new()];
    }
    if z.len() > 3 {
        return vec![BTreeSet::new(), z.iter().copied().collect()];
    }
    let mut out = vec![];
    for mask in 0..(1u32 << z.len()) {
        out.push(z.iter().enumerate().filter(|(i, _)| mask & (1 << i) != 0).map(|(_, u)| *u).collect());
    }
    out
}

pub struct RunOutcome {
    pub info: RunInfo,
    pub obs: Vec<(StepObs, Vec<Outcome>)>,
}

fn viol(id: &str, clause: &str, msg: String) -> Violation {
    Violation::new(format!("{id}:{clause}"), msg)
}

/// Execute the scenario on its host, judging every step.
pub fn run_scenario(scn: &Scenario, ck: &Checks, cov: &mut Cov) -> Result<RunOutcome, Violation> {
    run_scenario_on(scn, scn.host, ck, cov)
}

pub fn run_scenario_on(scn: &Scenario, sel: HostSel, ck: &Checks, cov: &mut Cov) -> Result<RunOutcome, Violation> {
    let id = ck.id;
    let mut host = make_host(sel);
    let kind = if sel.is_direct() { HostKind::Direct } else { HostKind::Core };
    let mut m0 = Model::new(kind);
    m0.g.legacy_supported = sel.supports_legacy();
    let mut cands: Vec<Model> = vec![m0];
    let mut obs_all = vec![];
    let mut order: BTreeMap<(u32, u64), u32> = BTreeMap::new();
    let mut shape: u64 = fnv(format!("{sel:?}").as_bytes());
    let mut max_outstanding = 0usize;
    let mut faults = 0u32;
    let mut discarded = false;
    let mut full_log_len = 0usize;
    let mut dropped_all = false;
    let tokens0 = super::ops::live_tokens();
    let mut peak_outstanding_bridge = 0usize;

    let ctrl = if scn.buggify { Some(install_buggify(scn.hash_seed)) } else { None };

    'steps: for (si, step) in scn.steps.iter().enumerate() {
        let mut outcomes = vec![];
        for act in step {
            cov.bump(&format!("action:{}", act.kind()));
            shape = mix(shape, fnv(act.kind().as_bytes()));
            match act {
                Action::Event(ev) => {
                    if dropped_all {
                        continue;
                    }
                    if let Event::Run(c) = ev {
                        shape = mix(shape, shape_of_cmd(c));
                    }
                    if let Event::Abort(_) = ev {
                        faults += 1;
                        cov.bump("fault:abort_cmd");
                    }
                    if let Err(e) = host.send_event(ev.clone()) {
                        return Err(viol(id, "host_error", format!("step {si}: {e}")));
                    }
                    for m in cands.iter_mut() {
                        m.send_event(ev);
                    }
                }
                Action::Resolve { site, arg, v } => {
                    let key = (*site, *arg);
                    if !host.holds(key) {
                        // only after shrinking: the request does not exist in this variant
                        let known = cands.iter().any(|m| m.g.reqs.get(&key).is_some_and(|r| !r.dropped));
                        if known && ck.model {
                            return Err(viol(id, "effects:missing", format!("step {si}: the shell never received request {key:?} which the reference semantics say was issued")));
                        }
                        cov.bump("skipped_action");
                        continue;
                    }
                    let real = match host.resolve(key, *v) {
                        Ok(o) => o,
                        Err(e) => {
                            let clause = if e.starts_with("panic:") { format!("panic:{}", e.split(':').nth(1).unwrap_or("?")) } else { "host_error".into() };
                            return Err(viol(id, &clause, format!("step {si}: resolve {key:?}: {e}")));
                        }
                    };
                    outcomes.push(real);
                    if ck.model {
                        let mut kept = vec![];
                        let mut expected = vec![];
                        for mut m in std::mem::take(&mut cands) {
                            let before = m.g.reqs.get(&key).cloned();
                            let exp = m.resolve(key, *v);
                            expected.push(exp);
                            if exp == real {
                                if let Some(b) = before {
                                    if kept.is_empty() {
                                        classify_resolve(&b, exp, cov, &mut faults);
                                        if b.arity == super::model::Arity::Once && exp == Outcome::Accepted {
                                            host.consumed(key);
                                        }
                                    }
                                }
                                kept.push(m);
                            }
                        }
                        if kept.is_empty() {
                            return Err(viol(
                                id,
                                &format!("resolve_outcome:{:?}_expected_{:?}", real, expected.first().copied().unwrap_or(Outcome::Unknown)),
                                format!("step {si}: resolving {key:?} was {real:?}, reference semantics say {expected:?}"),
                            ));
                        }
                        cands = kept;
                    }
                }
                Action::Drop { site, arg } => {
                    let key = (*site, *arg);
                    if !host.holds(key) {
                        cov.bump("skipped_action");
                        continue;
                    }
                    if host.drop_req(key) {
                        faults += 1;
                        cov.bump("fault:drop");
                        for m in cands.iter_mut() {
                            m.drop_req(key);
                        }
                    }
                }
                Action::DropRoot(rid) => {
                    faults += 1;
                    cov.bump("fault:drop_cmd");
                    host.drop_root(rid);
                    for m in cands.iter_mut() {
                        m.drop_root(rid);
                    }
                }
                Action::DropAll => {
                    faults += 1;
                    cov.bump("fault:drop_core");
                    dropped_all = true;
                    host = drop_everything(host, sel);
                    for m in cands.iter_mut() {
                        m.drop_all();
                    }
                }
            }
        }
        let obs = host.settle();
        cov.bump("sim_steps");
        if obs.reentered {
            return Err(viol(id, "update_reentered", format!("step {si}: update was entered while another update was running")));
        }
        if let Err(e) = emitter_order_ok(&obs.new_log, &mut order) {
            return Err(viol(id, "event_order", format!("step {si}: {e}")));
        }
        full_log_len += obs.new_log.len();

        if ck.model {
            let mut next: Vec<Model> = vec![];
            let mut first_out: Option<(StepOut, BTreeMap<_, _>)> = None;
            let mut first_sticky: Option<String> = None;
            for m in &cands {
                let mut trial = m.clone();
                let none = BTreeSet::new();
                let out0 = trial.settle(&none);
                let z = trial.optional_zombies();
                for sub in subsets(&z) {
                    let (m2, out) = if sub.is_empty() {
                        (trial.clone(), out0.clone())
                    } else {
                        let mut m2 = m.clone();
                        let out = m2.settle(&sub);
                        (m2, out)
                    };
                    if let Some(why) = &m2.g.ambiguous {
                        cov.bump(&format!("discard:{}", why.split(' ').take(3).collect::<Vec<_>>().join("_")));
                        discarded = true;
                        break 'steps;
                    }
                    if first_out.is_none() {
                        first_out = Some((out.clone(), m2.roots_done()));
                    }
                    if first_sticky.is_none() {
                        first_sticky = m2.g.sticky.clone();
                    }
                    let ok = effects_equal(&out.effects, &obs.effects)
                        && log_multiset_equal(&out.log, &obs.new_log)
                        && (!ck.done || obs.roots_done.as_ref().map_or(true, |d| *d == m2.roots_done()));
                    if ok && !next.contains(&m2) {
                        if !sub.is_empty() {
                            cov.bump("probe:early_reap_branch_taken");
                        }
                        next.push(m2);
                    }
                }
            }
            if next.is_empty() {
                if let Some(what) = cands.iter().find_map(|m| m.g.sticky.clone()).or_else(|| first_sticky.clone()) {
                    // the reference discarded a task which can never be woken again, the
                    // implementation is known to keep it: a C07/C13 matter, judged there only
                    if ck.id == "C07" || ck.id == "C13" {
                        return Err(viol(id, &format!("stuck_task_never_evicted:{what}"), format!("step {si} on {sel:?}: a task whose every request, stream and handle is gone was not discarded ({what} keeps a clone of its waker); real done flags {:?}", obs.roots_done)));
                    }
                    cov.bump("discard:known_divergence_stuck_task");
                    discarded = true;
                    break 'steps;
                }
                let (out, mdone) = first_out.unwrap();
                let (miss, extra) = diff_effects(&out.effects, &obs.effects);
                let (lmiss, lextra) = diff_log(&out.log, &obs.new_log);
                let clause = if !miss.is_empty() {
                    "effects:missing"
                } else if !extra.is_empty() {
                    "effects:extra"
                } else if !lmiss.is_empty() {
                    "events:missing"
                } else if !lextra.is_empty() {
                    "events:extra"
                } else {
                    "done_mismatch"
                };
                return Err(viol(
                    id,
                    clause,
                    format!(
                        "step {si} on {sel:?}: effects missing {miss:?} extra {extra:?}; events missing {lmiss:?} extra {lextra:?}; done model {mdone:?} real {:?}",
                        obs.roots_done
                    ),
                ));
            }
            if next.len() > 24 {
                cov.bump("discard:candidate_overflow");
                discarded = true;
                break 'steps;
            }
            cands = next;
            let outstanding = cands[0].outstanding().len();
            max_outstanding = max_outstanding.max(outstanding);
        }

        // quiescence: nothing runnable is left behind by a call
        if (ck.quiescence || ck.occupancy) && !sel.is_direct() && !dropped_all {
            let st = host.stats();
            if ck.quiescence && (st.ready_queue != 0 || st.spawn_queue != 0 || st.pending_events != 0 || st.pending_effects != 0) {
                return Err(viol(id, "not_quiescent", format!("step {si}: runtime queues after the call returned: {st:?}")));
            }
            if ck.occupancy && ck.model {
                let m = &cands[0];
                let bound = m.live_command_roots() + m.legacy.len() + 1;
                if st.executor_tasks > bound && cands.iter().all(|m| st.executor_tasks > m.live_command_roots() + m.legacy.len() + 1) {
                    return Err(viol(id, "occupancy:executor_tasks", format!("step {si}: {} executor tasks with only {} live commands/tasks in the reference", st.executor_tasks, bound - 1)));
                }
                peak_outstanding_bridge = peak_outstanding_bridge.max(m.outstanding().len());
            }
        }
        if ck.occupancy && sel.is_direct() && ck.model {
            let st = host.stats();
            if st.ready_queue != 0 || st.spawn_queue != 0 {
                return Err(viol(id, "not_quiescent", format!("step {si}: command queues after settle: {st:?}")));
            }
        }
        for o in &outcomes {
            cov.trace(&format!("{o:?}"));
        }
        cov.trace(&format!("{:?}{:?}", obs.effects, obs.new_log));
        obs_all.push((obs, outcomes));
    }

    // end of run
    if !discarded && ck.model {
        let m = &cands[0];
        cov.add("probe:evicted_task", m.g.evictions);
        cov.add("probe:zombie_reaped", m.g.zombies_reaped);
        if full_log_len > 0 {
            let real_full = host.full_log();
            if !dropped_all && !cands.iter().any(|m| log_multiset_equal(&m.log, &real_full)) {
                return Err(viol(id, "view_mismatch", format!("final view differs from the reference log: real {} entries, reference {}", real_full.len(), m.log.len())));
            }
        }
        if ck.occupancy {
            // after the drain everything is resolved or dropped: nothing may linger
            let done_everywhere = cands.iter().any(Model::all_done);
            let st = host.stats();
            let toks = super::ops::live_tokens() - tokens0;
            if done_everywhere && !dropped_all {
                if st.executor_tasks != 0 || st.command_tasks != 0 {
                    return Err(viol(id, "leak:tasks", format!("after the drain phase the reference has nothing left but the host still holds {st:?}")));
                }
                if toks != cands[0].g.tokens && !cands.iter().any(|m| m.g.tokens == toks) {
                    return Err(viol(id, "leak:tokens", format!("{toks} drop-counted tokens alive after the drain phase (reference {})", cands[0].g.tokens)));
                }
            }
            if dropped_all && toks != 0 {
                return Err(viol(id, "leak:tokens_after_drop", format!("{toks} tokens alive after the core/commands were dropped")));
            }
        }
    }
    drop(host);
    if ck.occupancy && !discarded {
        let toks = super::ops::live_tokens() - tokens0;
        if toks != 0 {
            return Err(viol(id, "leak:tokens_after_host_drop", format!("{toks} tokens alive after the host was dropped")));
        }
    }
    if let Some(c) = ctrl {
        cov.add("fault:spurious_wake", c.fired());
        faults += c.fired() as u32;
        crux_core::verif::set_thread_controller(None);
    }
    let nontrivial = max_outstanding >= 2 && (faults > 0 || out_of_order(scn));
    Ok(RunOutcome { info: RunInfo { shape, nontrivial, discarded }, obs: obs_all })
}

fn classify_resolve(before: &super::model::ReqState, exp: Outcome, cov: &mut Cov, faults: &mut u32) {
    use super::model::Arity;
    match (before.arity, exp) {
        (Arity::Never, _) => {
            *faults += 1;
            cov.bump("fault:resolve_never");
        }
        (Arity::Once, Outcome::Rejected) => {
            *faults += 1;
            cov.bump("fault:dup_resolve");
        }
        (Arity::Once, Outcome::Accepted) if !before.rx_alive => {
            *faults += 1;
            cov.bump("fault:late_resolve");
            cov.bump("probe:late_resolve_ignored");
        }
        (Arity::Many, Outcome::Rejected) => {
            *faults += 1;
            cov.bump("fault:late_resolve");
            cov.bump("probe:finished_stream_rejected");
        }
        (Arity::Many, Outcome::Accepted) => cov.bump("stream_item"),
        _ => {}
    }
}

/// was any request answered while an older one was still outstanding?
fn out_of_order(scn: &Scenario) -> bool {
    // cheap proxy on the script: a resolve whose value order differs from the request order
    let mut seen_sites: Vec<(u32, u64)> = vec![];
    let mut ooo = false;
    for st in &scn.steps {
        for a in st {
            if let Action::Resolve { site, arg, .. } = a {
                if let Some(last) = seen_sites.last() {
                    if (*site, *arg) < *last {
                        ooo = true;
                    }
                }
                seen_sites.push((*site, *arg));
            }
        }
    }
    ooo
}

fn drop_everything(mut host: Box<dyn Host>, _sel: HostSel) -> Box<dyn Host> {
    // the shell keeps its requests, the core/commands go away
    host.drop_all_roots();
    host
}

pub fn shape_of_cmd(c: &super::ast::Cmd) -> u64 {
    // structural hash without labels: serialise, blank the numbers
    let s = serde_json::to_string(c).unwrap_or_default();
    let t: String = s.chars().filter(|ch| !ch.is_ascii_digit()).collect();
    fnv(t.as_bytes())
}

// ------------------------------------------------------------------------------------------------
// buggify controller for single-threaded runs: spurious wake-ups

pub struct Buggify {
    rng: std::sync::Mutex<crate::rng::Rng>,
    fired: std::sync::atomic::AtomicU64,
}

impl Buggify {
    pub fn fired(&self) -> u64 {
        self.fired.load(std::sync::atomic::Ordering::SeqCst)
    }
}

impl crux_core::verif::Controller for Buggify {
    fn point(&self, _name: &'static str) {}
    fn lock_enter(&self, _name: &'static str, _addr: usize) {}
    fn lock_exit(&self, _name: &'static str, _addr: usize) {}
    fn buggify(&self, _name: &'static str) -> bool {
        let hit = self.rng.lock().unwrap().chance(1, 4);
        if hit {
            self.fired.fetch_add(1, std::sync::atomic::Ordering::SeqCst);
        }
        hit
    }
}

pub fn install_buggify(seed: u64) -> std::sync::Arc<Buggify> {
    let b = std::sync::Arc::new(Buggify {
        rng: std::sync::Mutex::new(crate::rng::Rng::new(seed ^ 0xB066)),
        fired: Default::default(),
    });
    crux_core::verif::set_thread_controller(Some(b.clone()));
    b
}
