//! Executes an explicit scenario against a real host and checks every step against the
//! reference model (kept as a small set of candidate states where the properties leave the
//! timing of lazy reaping open).

use std::collections::{BTreeMap, BTreeSet, VecDeque};

use super::gen::{Action, Scenario};
use super::hosts::{make_host, Host, HostSel, StepObs};
use super::model::{Arity, EffectDesc, HostKind, Model, Outcome, ReqKey, RootId, StepOut};
use super::ops::{Event, LogEntry};
use crate::rng::{fnv, mix};
use crate::runner::{Cov, RunInfo, Violation};

#[derive(Clone, Debug, Default)]
pub struct Checks {
    /// property id used as signature prefix
    pub id: &'static str,
    /// compare each step with the reference model
    pub model: bool,
    /// quiescence of the runtime queues after each call (Core hosts)
    pub quiescence: bool,
    /// occupancy bounded by outstanding work; everything released at the end (C13)
    pub occupancy: bool,
    /// is_done per root (Direct)
    pub done: bool,
}

fn eff_key(e: &EffectDesc) -> (u32, u64, u8, Vec<u8>) {
    (e.site, e.arg, e.op as u8, e.trace.clone())
}

pub fn effects_equal(a: &[EffectDesc], b: &[EffectDesc]) -> bool {
    let mut x: Vec<_> = a.iter().map(eff_key).collect();
    let mut y: Vec<_> = b.iter().map(eff_key).collect();
    x.sort();
    y.sort();
    x == y
}

pub fn log_multiset_equal(a: &[LogEntry], b: &[LogEntry]) -> bool {
    let mut x = a.to_vec();
    let mut y = b.to_vec();
    x.sort();
    y.sort();
    x == y
}

/// events of one emitter must be applied in emission order
pub fn emitter_order_ok(log: &[LogEntry], last: &mut BTreeMap<(u32, u64), u32>) -> Result<(), String> {
    for e in log {
        if let LogEntry::Em { em_label, em_start, seq, .. } = e {
            let k = (*em_label, *em_start);
            let expect = last.get(&k).map_or(0, |s| s + 1);
            if *seq != expect {
                return Err(format!("emitter {k:?}: event seq {seq} applied where {expect} was due"));
            }
            last.insert(k, *seq);
        }
    }
    Ok(())
}

fn diff_effects(model: &[EffectDesc], real: &[EffectDesc]) -> (Vec<String>, Vec<String>) {
    let m: Vec<_> = model.iter().map(eff_key).collect();
    let r: Vec<_> = real.iter().map(eff_key).collect();
    let mut missing = vec![];
    let mut rr = r.clone();
    for x in &m {
        if let Some(p) = rr.iter().position(|y| y == x) {
            rr.remove(p);
        } else {
            missing.push(format!("{x:?}"));
        }
    }
    (missing, rr.iter().map(|y| format!("{y:?}")).collect())
}

fn diff_log(model: &[LogEntry], real: &[LogEntry]) -> (Vec<String>, Vec<String>) {
    let mut rr = real.to_vec();
    let mut missing = vec![];
    for x in model {
        if let Some(p) = rr.iter().position(|y| y == x) {
            rr.remove(p);
        } else {
            missing.push(format!("{x:?}"));
        }
    }
    (missing, rr.iter().map(|y| format!("{y:?}")).collect())
}

fn subsets(z: &[u64]) -> Vec<BTreeSet<u64>> {
    if z.is_empty() {
        return vec![BTreeSet::new()];
    }
    if z.len() > 3 {
        return vec![BTreeSet::new(), z.iter().copied().collect()];
    }
    let mut out = vec![];
    for mask in 0..(1u32 << z.len()) {
        out.push(z.iter().enumerate().filter(|(i, _)| mask & (1 << i) != 0).map(|(_, u)| *u).collect());
    }
    out
}

pub struct RunOutcome {
    pub info: RunInfo,
    pub obs: Vec<(StepObs, Vec<Outcome>)>,
    /// per step boundary (before step i): droppable outstanding requests, registered handles, live roots
    pub boundaries: Vec<Boundary>,
    /// at some step the reference left open when an aborted command is actually discarded
    pub reap_slack: bool,
}

#[derive(Clone, Debug, Default)]
pub struct Boundary {
    pub droppable: Vec<ReqKey>,
    pub handles: Vec<u32>,
    pub roots: Vec<RootId>,
}

fn viol(id: &str, clause: &str, msg: String) -> Violation {
    Violation::new(format!("{id}:{clause}"), msg)
}

struct Run<'a> {
    id: &'static str,
    ck: &'a Checks,
    sel: HostSel,
    host: Box<dyn Host>,
    cands: Vec<Model>,
    order: BTreeMap<(u32, u64), u32>,
    shape: u64,
    max_outstanding: usize,
    faults: u32,
    discarded: bool,
    full_log_len: usize,
    dropped_all: bool,
    peak_outstanding: usize,
    obs_all: Vec<(StepObs, Vec<Outcome>)>,
    boundaries: Vec<Boundary>,
    sticky_reported: bool,
    renders_seen: usize,
    /// abort handle -> (labels of its own tasks, labels of tasks of commands nested in it)
    coverage: BTreeMap<u32, (BTreeSet<u32>, BTreeSet<u32>)>,
    order_checked: usize,
    aborted_by: BTreeMap<u32, Option<(u64, u64)>>,
    aborted_tasks: BTreeSet<u64>,
    nested_after_abort_reported: bool,
    reap_slack: bool,
    defer_drops: bool,
    bridge_dups: bool,
    races: bool,
    deferred_drop: bool,
    legacy_dropped: bool,
}

enum StepEnd {
    Continue,
    Stop,
}

impl Run<'_> {
    /// "After a command is aborted ... the cancelled work never produces another effect or event":
    /// read off the order in which the real tasks ran (the reference polls tasks in an order of its own
    /// and sets such runs aside). The task that issued the abort runs on to its next await point.
    fn check_outputs_after_abort(&mut self, si: usize, cov: &mut Cov) -> Result<(), Violation> {
        use super::build::Order;
        let log = super::build::order_log_snapshot();
        let from = self.order_checked.min(log.len());
        for e in &log[from..] {
            match e {
                Order::Abort { h, by } => {
                    self.aborted_by.entry(*h).or_insert(*by);
                }
                Order::AbortTask { inst } => {
                    self.aborted_tasks.insert(*inst);
                }
                Order::Out { label, at, what } => {
                    if self.aborted_tasks.contains(&at.0) {
                        cov.bump("probe:output_after_task_abort_seen");
                        if self.id == "C06" {
                            return Err(viol(self.id, "output_after_abort:task", format!("step {si} on {:?}: task {label} produced a {what} after it had been aborted through its join handle", self.sel)));
                        }
                    }
                    for (h, by) in &self.aborted_by {
                        let Some((own, nested)) = self.coverage.get(h) else { continue };
                        if *by == Some(*at) {
                            cov.bump("probe:aborting_task_ran_on_to_its_next_await");
                            continue;
                        }
                        if own.contains(label) {
                            cov.bump("probe:output_after_abort_seen");
                            if self.id == "C06" {
                                return Err(viol(self.id, "output_after_abort:own_task", format!("step {si} on {:?}: task {label} of the command aborted through handle {h} produced a {what} after the abort (it was polled again although its command had been aborted)", self.sel)));
                            }
                        } else if nested.contains(label) {
                            cov.bump("probe:output_after_abort_seen_nested");
                            if self.id == "C06" && !self.nested_after_abort_reported {
                                self.nested_after_abort_reported = true;
                                cov.tolerate(viol(self.id, "output_after_abort:nested_command", format!("step {si} on {:?}: task {label} of a command hosted inside the command aborted through handle {h} produced a {what} after the abort (the tasks of a nested command run on until its settling pass ends)", self.sel)))?;
                            }
                        }
                    }
                }
            }
        }
        self.order_checked = log.len();
        Ok(())
    }

    /// every surviving candidate follows the implementation where it keeps a stuck `then_stream`
    /// chain which the property wants discarded: the known finding S12, reported once per run
    fn report_sticky(&mut self, id: &'static str, si: usize, sel: HostSel, cov: &mut Cov, what: &str) -> Result<(), Violation> {
        if self.sticky_reported || self.cands.is_empty() || !self.cands.iter().all(|m| m.g.sticky_kept) {
            return Ok(());
        }
        self.sticky_reported = true;
        if id == "C07" || id == "C13" {
            cov.tolerate(viol(id, "stuck_task_never_evicted:then_stream", format!("step {si} on {sel:?}: a task whose every request and stream is gone was not discarded (a stream chain using then_stream keeps a clone of its own waker alive); {what}")))?;
        } else {
            cov.bump("probe:known_divergence_stuck_task_followed");
        }
        Ok(())
    }

    fn step(&mut self, si: usize, step: &[Action], cov: &mut Cov) -> Result<StepEnd, Violation> {
        let id = self.id;
        let ck = self.ck;
        let sel = self.sel;
        if ck.model {
            let m = &self.cands[0];
            self.boundaries.push(Boundary {
                droppable: m
                    .outstanding()
                    .iter()
                    .filter(|o| o.droppable && o.arity != Arity::Never && !(o.arity == Arity::Once && o.resolved))
                    .map(|o| o.key)
                    .collect(),
                handles: m.abortable_handles(),
                roots: m.roots.iter().filter(|r| !r.cmd.is_finished()).map(|r| r.id.clone()).collect(),
            });
        }
        let mut outcomes = vec![];
        // Dropping a request (or a rejected resolution) is not a call into a core: what it makes
        // possible is owed by the next call
        let mut had_call = sel.is_direct() && !self.defer_drops;
        for act in step {
            cov.bump(&format!("action:{}", act.kind()));
            self.shape = mix(self.shape, fnv(act.kind().as_bytes()));
            match act {
                Action::Event(ev) => {
                    if self.dropped_all {
                        continue;
                    }
                    if let Event::Run(c) = ev {
                        self.shape = mix(self.shape, shape_of_cmd(c));
                        self.races |= c.has_races();
                    }
                    if self.deferred_drop && self.races && !matches!(ev, Event::Noop) {
                        // the work enabled by the drop would run together with this call's own:
                        // two actions in one settle of a program with races (only reachable by shrinking)
                        cov.bump("discard:deferred_drop_not_flushed");
                        self.discarded = true;
                        return Ok(StepEnd::Stop);
                    }
                    self.deferred_drop = false;
                    if let Event::Abort(_) = ev {
                        self.faults += 1;
                        cov.bump("fault:abort_cmd");
                    }
                    if let Err(e) = self.host.send_event(ev.clone()) {
                        return Err(viol(id, "host_error", format!("step {si}: {e}")));
                    }
                    had_call = true;
                    for m in self.cands.iter_mut() {
                        m.send_event(ev);
                    }
                }
                Action::Resolve { site, arg, v } => {
                    let key = (*site, *arg);
                    if !self.host.holds(key) {
                        if self.host.is_consumed(key) && !self.bridge_dups {
                            // a duplicate for a consumed one-shot is withheld from the bridge (known
                            // finding S6 territory, injected only in dedicated C02 runs); a correct
                            // bridge would reject it without effect
                            cov.bump("bridge_dup_withheld");
                            outcomes.push(Outcome::Rejected);
                            for m in self.cands.iter_mut() {
                                m.resolve(key, *v);
                            }
                            continue;
                        }
                        // a deliberate duplicate over the bridge?
                        if let Some(r) = self.host.resolve_consumed(key, *v) {
                            self.faults += 1;
                            cov.bump("fault:bridge_dup_response");
                            match r {
                                Ok(Outcome::Rejected) => {
                                    outcomes.push(Outcome::Rejected);
                                    for m in self.cands.iter_mut() {
                                        m.resolve(key, *v);
                                    }
                                }
                                Ok(o) => {
                                    return Err(viol(id, "bridge_duplicate:accepted_on_vacant_id", format!("step {si}: a second response for the consumed one-shot {key:?} was {o:?} although its id is vacant")));
                                }
                                Err(e) if e.starts_with("misrouted") => {
                                    cov.tolerate(viol(id, "bridge_duplicate:accepted", format!("step {si}: a second response for the consumed one-shot {key:?} reached an unrelated newer request ({e})")))?;
                                    // an unrelated request was resolved or consumed: the rest cannot be judged
                                    return Ok(StepEnd::Stop);
                                }
                                Err(e) => {
                                    cov.tolerate(viol(id, "bridge_duplicate:panic", format!("step {si}: a second response for the consumed one-shot {key:?}: {e}")))?;
                                    return Ok(StepEnd::Stop);
                                }
                            }
                            continue;
                        }
                        // only after shrinking: the request does not exist in this variant
                        let known = self.cands.iter().any(|m| m.g.reqs.get(&key).is_some_and(|r| !r.dropped));
                        if known && ck.model && !sel.is_bridge() {
                            return Err(viol(id, "effects:missing", format!("step {si}: the shell never received request {key:?} which the reference semantics say was issued")));
                        }
                        cov.bump("skipped_action");
                        continue;
                    }
                    if self.deferred_drop && self.races {
                        cov.bump("discard:deferred_drop_not_flushed");
                        self.discarded = true;
                        return Ok(StepEnd::Stop);
                    }
                    let real = match self.host.resolve(key, *v) {
                        Ok(o) => o,
                        Err(e) => {
                            let clause = if let Some(rest) = e.strip_prefix("panic:") {
                                format!("panic:{}", rest.split(':').next().unwrap_or("?"))
                            } else {
                                "host_error".into()
                            };
                            return Err(viol(id, &clause, format!("step {si}: resolve {key:?}: {e}")));
                        }
                    };
                    outcomes.push(real);
                    if std::env::var("VERIF_DEBUG").is_ok() {
                        eprintln!("step {si} resolve {key:?} -> {real:?}");
                    }
                    if real == Outcome::Accepted {
                        had_call = true;
                    }
                    if ck.model {
                        let mut kept = vec![];
                        let mut expected = vec![];
                        for mut m in std::mem::take(&mut self.cands) {
                            let before = m.g.reqs.get(&key).cloned();
                            let exp = m.resolve(key, *v);
                            expected.push(exp);
                            if exp == real {
                                if let Some(b) = before {
                                    if kept.is_empty() {
                                        classify_resolve(&b, exp, cov, &mut self.faults);
                                        if b.arity == Arity::Once && exp == Outcome::Accepted {
                                            self.host.consumed(key);
                                        }
                                    }
                                }
                                kept.push(m);
                            }
                        }
                        if kept.is_empty() {
                            return Err(viol(
                                id,
                                &format!("resolve_outcome:{:?}_expected_{:?}", real, expected.first().copied().unwrap_or(Outcome::Unknown)),
                                format!("step {si}: resolving {key:?} was {real:?}, reference semantics say {expected:?}"),
                            ));
                        }
                        self.cands = kept;
                    }
                }
                Action::Drop { site, arg } => {
                    let key = (*site, *arg);
                    if !self.host.holds(key) {
                        cov.bump("skipped_action");
                        continue;
                    }
                    if self.cands.iter().any(|m| m.g.reqs.get(&key).is_some_and(|r| r.legacy && r.arity == Arity::Many) && !m.outstanding().iter().any(|o| o.key == key && o.droppable)) {
                        // an old-API stream whose consumer is waiting on it is never told about the drop
                        // (S10): such a drop is not part of these scripts (a shrunk script could ask for it)
                        cov.bump("skipped_action");
                        continue;
                    }
                    if self.cands.iter().any(|m| m.g.reqs.get(&key).is_some_and(|r| r.legacy && r.arity == Arity::Many)) {
                        cov.bump("fault:drop_legacy_stream_consumer_busy");
                    } else if self.cands.iter().any(|m| m.g.reqs.get(&key).is_some_and(|r| r.legacy)) {
                        self.legacy_dropped = true;
                        cov.bump("fault:drop_legacy_request");
                    }
                    if self.deferred_drop && self.races {
                        // a second drop before the first one's consequences have run: two actions
                        // would share one settle
                        cov.bump("discard:deferred_drop_not_flushed");
                        self.discarded = true;
                        return Ok(StepEnd::Stop);
                    }
                    if self.host.drop_req(key) {
                        self.faults += 1;
                        cov.bump("fault:drop");
                        if !sel.is_direct() || self.defer_drops {
                            self.deferred_drop = true;
                        }
                        if sel.is_bridge() {
                            // an undecodable response: "a rejected response affects at most the one
                            // request it was addressed to" - whether that request is abandoned or stays
                            // pending is left open, both continuations are followed
                            cov.bump("fault:bridge_undecodable_response_to_one_shot");
                            let mut both = vec![];
                            for m in std::mem::take(&mut self.cands) {
                                let mut d = m.clone();
                                d.drop_req(key);
                                both.push(d);
                                both.push(m);
                            }
                            self.cands = both;
                        } else {
                            for m in self.cands.iter_mut() {
                                m.drop_req(key);
                            }
                        }
                    }
                }
                Action::AckRender => match self.host.ack_render() {
                    None => {
                        cov.bump("skipped_action");
                        continue;
                    }
                    Some(true) => {
                        self.faults += 1;
                        cov.bump("fault:bridge_render_acknowledged");
                        self.renders_seen = self.renders_seen.saturating_sub(1);
                    }
                    Some(false) => {
                        return Err(viol(id, "render_ack_not_rejected", format!("step {si}: a response to a render request was not rejected")));
                    }
                },
                Action::BadItem { site, arg } => {
                    let key = (*site, *arg);
                    match self.host.bad_item(key) {
                        None => {
                            cov.bump("skipped_action");
                            continue;
                        }
                        Some(true) => {
                            // rejected, nothing else happens: the stream stays as it was
                            self.faults += 1;
                            cov.bump("fault:bridge_undecodable_stream_item");
                        }
                        Some(false) => {
                            return Err(viol(id, "undecodable_item_not_rejected", format!("step {si}: bytes that do not decode were not rejected as such for the stream {key:?}")));
                        }
                    }
                }
                Action::DropRoot(rid) => {
                    self.faults += 1;
                    cov.bump("fault:drop_cmd");
                    self.host.drop_root(rid);
                    for m in self.cands.iter_mut() {
                        m.drop_root(rid);
                    }
                }
                Action::DropAll => {
                    self.faults += 1;
                    cov.bump("fault:drop_core");
                    self.dropped_all = true;
                    self.host.drop_all_roots();
                    for m in self.cands.iter_mut() {
                        m.drop_all();
                    }
                }
            }
        }
        let obs = if !had_call && sel.is_direct() {
            // the holder of the command does not poll it either
            StepObs::default()
        } else {
            self.host.settle()
        };
        cov.bump("sim_steps");
        self.check_outputs_after_abort(si, cov)?;
        self.renders_seen += obs.effects.iter().filter(|e| e.op == super::model::OpName::Render).count();
        if let Some(e) = self.host.take_errors().into_iter().next() {
            return Err(viol(id, "bridge_invariant", format!("step {si}: {e}")));
        }
        if let Some(what) = &obs.done_with_pending {
            return Err(viol(id, "done_while_output_pending", format!("step {si}: {what}")));
        }
        if obs.reentered {
            return Err(viol(id, "update_reentered", format!("step {si}: update was entered while another update was running")));
        }
        if let Err(e) = emitter_order_ok(&obs.new_log, &mut self.order) {
            return Err(viol(id, "event_order", format!("step {si}: {e}")));
        }
        self.full_log_len += obs.new_log.len();

        if !had_call {
            if !obs.effects.is_empty() || !obs.new_log.is_empty() {
                return Err(viol(id, "output_without_call", format!("step {si}: outputs appeared although no call was made: {:?} {:?}", obs.effects, obs.new_log)));
            }
            self.obs_all.push((obs, outcomes));
            return Ok(StepEnd::Continue);
        }
        if ck.model {
            let mut next: Vec<Model> = vec![];
            let mut first_out: Option<(StepOut, BTreeMap<RootId, bool>)> = None;
            for m in &self.cands {
                // reaping one discarded command early can let a following command start, run and
                // become discardable in the same settle: the choice is iterated to a fixpoint
                let mut work: VecDeque<BTreeSet<u64>> = VecDeque::new();
                let mut seen: BTreeSet<BTreeSet<u64>> = BTreeSet::new();
                work.push_back(BTreeSet::new());
                seen.insert(BTreeSet::new());
                let mut evaluated = 0;
                while let Some(sub) = work.pop_front() {
                    evaluated += 1;
                    let mut variants = vec![];
                    let mut m2 = m.clone();
                    m2.g.sticky = None;
                    let out = m2.settle(&sub);
                    if m2.g.sticky.is_some() && !m.g.keep_sticky {
                        // the reference discarded a stuck `then_stream` chain, which the implementation
                        // is known to keep (S12): a twin which follows the implementation goes along
                        let mut m3 = m.clone();
                        m3.g.keep_sticky = true;
                        let out3 = m3.settle(&sub);
                        variants.push((m2, out));
                        variants.push((m3, out3));
                    } else {
                        variants.push((m2, out));
                    }
                    if evaluated >= 32 {
                        cov.bump("discard:too_many_open_discard_choices");
                        self.discarded = true;
                        return Ok(StepEnd::Stop);
                    }
                    {
                        let z: Vec<u64> = variants[0].0.optional_zombies().into_iter().filter(|u| !sub.contains(u)).collect();
                        if z.len() > 3 {
                            // more open now-or-later choices than are enumerated: not judged
                            cov.bump("discard:too_many_open_discard_choices");
                            self.discarded = true;
                            return Ok(StepEnd::Stop);
                        }
                        for more in subsets(&z) {
                            if more.is_empty() {
                                continue;
                            }
                            let mut s2 = sub.clone();
                            s2.extend(more);
                            self.reap_slack = true;
                            if seen.insert(s2.clone()) {
                                if !sub.is_empty() {
                                    cov.bump("probe:early_reap_second_level");
                                }
                                work.push_back(s2);
                            }
                        }
                    }
                    for (m2, out) in variants {
                        if std::env::var("VERIF_DEBUG").is_ok() {
                            eprintln!("step {si} cand reap={sub:?} keep_sticky={} effects={:?} log={:?} done={:?} amb={:?} | real effects={:?} done={:?}", m2.g.keep_sticky, out.effects, out.log, m2.roots_done(), m2.g.ambiguous, obs.effects, obs.roots_done);
                        }
                        if let Some(why) = &m2.g.ambiguous {
                            cov.bump(&format!("discard:{}", why.split(' ').take(3).collect::<Vec<_>>().join("_")));
                            self.discarded = true;
                            return Ok(StepEnd::Stop);
                        }
                        if first_out.is_none() {
                            first_out = Some((out.clone(), m2.roots_done()));
                        }
                        let ok = effects_equal(&out.effects, &obs.effects)
                            && log_multiset_equal(&out.log, &obs.new_log)
                            && (!ck.done || obs.roots_done.as_ref().map_or(true, |d| *d == m2.roots_done()));
                        if ok && !next.contains(&m2) {
                            if !sub.is_empty() {
                                cov.bump("probe:early_reap_branch_taken");
                            }
                            next.push(m2);
                        }
                    }
                }
            }
            if next.is_empty() {
                let (out, mdone) = first_out.unwrap();
                let (miss, extra) = diff_effects(&out.effects, &obs.effects);
                let (lmiss, lextra) = diff_log(&out.log, &obs.new_log);
                let clause = if !miss.is_empty() {
                    "effects:missing"
                } else if !extra.is_empty() {
                    "effects:extra"
                } else if !lmiss.is_empty() {
                    "events:missing"
                } else if !lextra.is_empty() {
                    "events:extra"
                } else {
                    "done_mismatch"
                };
                return Err(viol(
                    id,
                    clause,
                    format!(
                        "step {si} on {sel:?}: effects missing {miss:?} extra {extra:?}; events missing {lmiss:?} extra {lextra:?}; done model {mdone:?} real {:?}",
                        obs.roots_done
                    ),
                ));
            }
            if next.len() > 24 {
                cov.bump("discard:candidate_overflow");
                self.discarded = true;
                return Ok(StepEnd::Stop);
            }
            self.cands = next;
            self.report_sticky(id, si, sel, cov, &format!("real done flags {:?}", obs.roots_done))?;
            let outstanding = self.cands[0].outstanding().len();
            self.max_outstanding = self.max_outstanding.max(outstanding);
        }

        // quiescence: nothing runnable is left behind by a call
        if (ck.quiescence || ck.occupancy) && !sel.is_direct() && !self.dropped_all {
            let st = self.host.stats();
            if ck.quiescence && (st.ready_queue != 0 || st.spawn_queue != 0 || st.pending_events != 0 || st.pending_effects != 0) {
                return Err(viol(id, "not_quiescent", format!("step {si}: runtime queues after the call returned: {st:?}")));
            }
            if ck.occupancy && ck.model {
                let fits = |m: &Model| st.executor_tasks <= m.live_command_roots() + m.legacy.len();
                if self.cands.iter().any(fits) && self.cands.iter().any(|m| m.g.keep_sticky) {
                    // the task count tells the twins apart
                    self.cands.retain(fits);
                }
                self.report_sticky(id, si, sel, cov, &format!("{} executor tasks", st.executor_tasks))?;
                if !self.cands.iter().any(fits) && self.legacy_dropped {
                    cov.tolerate(viol(id, "legacy_task_survives_dropped_request", format!("step {si} on {sel:?}: {} executor tasks; a task of the old capability API whose request the shell dropped is never woken and stays (with everything it captured) until the core is dropped", st.executor_tasks)))?;
                    return Ok(StepEnd::Stop);
                }
                if !self.cands.iter().any(fits) {
                    let m = &self.cands[0];
                    cov.tolerate(viol(id, "occupancy:executor_tasks", format!("step {si}: {} executor tasks with only {} live commands and {} live legacy tasks in the reference", st.executor_tasks, m.live_command_roots(), m.legacy.len())))?;
                }
                if let Some((never, once, many)) = self.host.registry_kinds() {
                    let count = |m: &Model, a: Arity| {
                        m.outstanding()
                            .iter()
                            .filter(|o| {
                                o.arity == a
                                    && match a {
                                        Arity::Once | Arity::Never => !o.resolved,
                                        Arity::Many => o.rx_alive,
                                    }
                            })
                            .count()
                    };
                    let renders = self.renders_seen;
                    if never > 0 && !self.cands.iter().any(|m| never <= count(m, Arity::Never) + renders) {
                        // more than the unanswered notifications (those are the known finding below)
                        return Err(viol(id, "registry_keeps:spent_entry", format!("step {si}: the bridge registry holds {never} entries that can never be resolved, the reference has {} unanswered notifications and {renders} renders: entries of requests that were answered (or whose answer was rejected) are kept", count(&self.cands[0], Arity::Never))));
                    }
                    let m = &self.cands[0];
                    let open_once = count(m, Arity::Once);
                    let live_many = count(m, Arity::Many);
                    self.peak_outstanding = self.peak_outstanding.max(open_once + live_many);
                    if never > 0 {
                        cov.tolerate(viol(id, "registry_keeps:never", format!("step {si}: the bridge registry holds {never} notification entries, none of which can ever be resolved")))?;
                    }
                    let all_many = |m: &Model| m.outstanding().iter().filter(|o| o.arity == Arity::Many).count();
                    if !self.cands.iter().any(|m| many <= all_many(m)) {
                        // more stream entries than stream requests ever issued and not dropped (ended ones
                        // are the known finding below)
                        return Err(viol(id, "registry_keeps:unexplained_stream_entry", format!("step {si}: the bridge registry holds {many} stream entries, the reference knows of {} stream requests, live or ended", all_many(&self.cands[0]))));
                    }
                    if many > live_many && !self.cands.iter().any(|m| many <= count(m, Arity::Many)) {
                        cov.tolerate(viol(id, "registry_keeps:ended_stream", format!("step {si}: the bridge registry holds {many} stream entries, the reference has {live_many} live subscriptions")))?;
                    }
                    if once > open_once && !self.cands.iter().any(|m| once <= count(m, Arity::Once)) {
                        cov.tolerate(viol(id, "registry_keeps:resolved_once", format!("step {si}: the bridge registry holds {once} one-shot entries, the reference has {open_once} unanswered")))?;
                    }
                }
            }
        }
        if ck.occupancy && sel.is_direct() && ck.model {
            let st = self.host.stats();
            // (stale task ids in the ready queue of an aborted command are a few integers, not work)
            if st.spawn_queue != 0 {
                cov.tolerate(viol(id, "leak:unspawned_tasks", format!("step {si}: tasks (futures and everything they captured) sit in a command's spawn queue after settle: {st:?}")))?;
            }
        }
        for o in &outcomes {
            cov.trace(&format!("{o:?}"));
        }
        cov.trace(&format!("{:?}{:?}", obs.effects, obs.new_log));
        self.obs_all.push((obs, outcomes));
        Ok(StepEnd::Continue)
    }
}

pub fn run_scenario_on(scn: &Scenario, sel: HostSel, ck: &Checks, cov: &mut Cov) -> Result<RunOutcome, Violation> {
    let id = ck.id;
    let kind = if sel.is_direct() { HostKind::Direct } else { HostKind::Core };
    let mut m0 = Model::new(kind);
    m0.g.legacy_supported = sel.supports_legacy();
    m0.g.legacy_drops = scn.legacy_drops;
    let tokens0 = super::ops::live_tokens();
    let ops0 = super::ops::live_ops();
    let ctrl = if scn.buggify { Some(install_buggify(scn.hash_seed)) } else { None };
    let mut coverage = BTreeMap::new();
    for a in scn.steps.iter().flatten() {
        if let Action::Event(Event::Run(c)) = a {
            coverage.extend(c.abort_coverage());
        }
    }
    super::build::order_log_reset();
    let mut run = Run {
        id,
        ck,
        sel,
        host: make_host(sel),
        cands: vec![m0],
        order: BTreeMap::new(),
        shape: fnv(format!("{sel:?}").as_bytes()),
        max_outstanding: 0,
        faults: 0,
        discarded: false,
        full_log_len: 0,
        dropped_all: false,
        peak_outstanding: 0,
        obs_all: vec![],
        boundaries: vec![],
        sticky_reported: false,
        renders_seen: 0,
        coverage,
        order_checked: 0,
        aborted_by: BTreeMap::new(),
        aborted_tasks: BTreeSet::new(),
        nested_after_abort_reported: false,
        reap_slack: false,
        defer_drops: scn.defer_drops,
        bridge_dups: scn.bridge_dups,
        races: false,
        deferred_drop: false,
        legacy_dropped: false,
    };

    let mut stopped = false;
    for (si, step) in scn.steps.iter().enumerate() {
        match run.step(si, step, cov)? {
            StepEnd::Continue => {}
            StepEnd::Stop => {
                stopped = true;
                break;
            }
        }
    }
    if !stopped && scn.adaptive_drain && ck.model {
        // faults off: end every stream, answer every one-shot, as long as the reference says
        // something is outstanding
        let mut v = 9_000_000u64;
        for round in 0..400 {
            let m = &run.cands[0];
            let outs = m.outstanding();
            let act = if let Some(o) = outs.iter().find(|o| o.arity == Arity::Many && o.droppable && !sel.is_bridge()) {
                Some(Action::Drop { site: o.key.0, arg: o.key.1 })
            } else if let Some(o) = outs.iter().find(|o| o.arity == Arity::Once && !o.resolved) {
                v += 1;
                Some(Action::Resolve { site: o.key.0, arg: o.key.1, v })
            } else {
                None
            };
            let Some(act) = act else { break };
            match run.step(scn.steps.len() + round, &[act], cov)? {
                StepEnd::Continue => {}
                StepEnd::Stop => {
                    stopped = true;
                    break;
                }
            }
        }
    }

    // end of run
    let discarded = run.discarded;
    if !discarded && !stopped && ck.model {
        let m = &run.cands[0];
        cov.add("probe:evicted_task", m.g.evictions);
        cov.add("probe:zombie_reaped", m.g.zombies_reaped);
        cov.add("probe:aborted_in_poll_with_output_reaped_at_once", m.g.immediate_reaps);
        if run.full_log_len > 0 && !run.dropped_all {
            let real_full = run.host.full_log();
            if !run.cands.iter().any(|m| log_multiset_equal(&m.log, &real_full)) {
                return Err(viol(id, "view_mismatch", format!("final view differs from the reference log: real {} entries, reference {}", real_full.len(), m.log.len())));
            }
        }
        if ck.occupancy {
            // after the drain everything is resolved or dropped: nothing may linger
            let st = run.host.stats();
            let toks = super::ops::live_tokens() - tokens0;
            if !run.dropped_all {
                // some candidate state of the reference must account for what the host still holds
                let accounted = run.cands.iter().any(|m| {
                    st.executor_tasks <= m.live_command_roots() + m.legacy.len()
                        && m.g.tokens == toks
                        && (!m.all_done() || (st.executor_tasks == 0 && st.command_tasks == 0))
                });
                if !accounted && run.legacy_dropped {
                    cov.tolerate(viol(id, "legacy_task_survives_dropped_request", format!("after the drain phase the host holds {st:?} and {toks} tokens; a task of the old capability API whose request the shell dropped is never woken and stays until the core is dropped")))?;
                } else if !accounted {
                    let m = &run.cands[0];
                    let clause = if run.cands.iter().any(|m| m.g.tokens == toks) { "leak:tasks_after_drain" } else { "leak:tokens_after_drain" };
                    cov.tolerate(viol(id, clause, format!("after the drain phase the host holds {st:?} and {toks} drop-counted tokens; the reference has {} live commands, {} live legacy tasks, {} tokens", m.live_command_roots(), m.legacy.len(), m.g.tokens)))?;
                }
            }
            if sel.is_bridge()
                && st.registry_max_id as usize > 2 * run.peak_outstanding + 8
                && !cov.known.contains(&format!("{id}:registry_keeps:never"))
            {
                cov.tolerate(viol(id, "registry_growth", format!("largest effect id {} with at most {} requests outstanding at once", st.registry_max_id, run.peak_outstanding)))?;
            }
            if run.dropped_all && toks != 0 {
                cov.tolerate(viol(id, "leak:tokens_after_drop", format!("{toks} tokens alive after the core/commands were dropped")))?;
            }
        }
    }
    let Run { host, shape, max_outstanding, mut faults, obs_all, boundaries, reap_slack, .. } = run;
    drop(host);
    if ck.occupancy && !discarded {
        let toks = super::ops::live_tokens() - tokens0;
        if toks != 0 {
            return Err(viol(id, "leak:tokens_after_host_drop", format!("{toks} tokens alive after the host was dropped")));
        }
    }
    if ck.occupancy && !discarded {
        let ops = super::ops::live_ops() - ops0;
        if ops != 0 {
            return Err(viol(id, "leak:operations_after_host_drop", format!("{ops} operation values are still alive after the host and the shell were dropped: something a request captured is never released")));
        }
    }
    if let Some(c) = ctrl {
        cov.add("fault:spurious_wake", c.fired());
        faults += c.fired() as u32;
        crux_core::verif::set_thread_controller(None);
    }
    let nontrivial = max_outstanding >= 2 && (faults > 0 || out_of_order(scn));
    Ok(RunOutcome { info: RunInfo { shape, nontrivial, discarded }, obs: obs_all, boundaries, reap_slack })
}

fn classify_resolve(before: &super::model::ReqState, exp: Outcome, cov: &mut Cov, faults: &mut u32) {
    match (before.arity, exp) {
        (Arity::Never, _) => {
            *faults += 1;
            cov.bump("fault:resolve_never");
        }
        (Arity::Once, Outcome::Rejected) => {
            *faults += 1;
            cov.bump("fault:dup_resolve");
        }
        (Arity::Once, Outcome::Accepted) if !before.rx_alive => {
            *faults += 1;
            cov.bump("fault:late_resolve");
            cov.bump("probe:late_resolve_ignored");
        }
        (Arity::Many, Outcome::Rejected) => {
            *faults += 1;
            cov.bump("fault:late_resolve");
            cov.bump("probe:finished_stream_rejected");
        }
        (Arity::Many, Outcome::Accepted) => cov.bump("stream_item"),
        _ => {}
    }
}

/// was any request answered while an older one was still outstanding? (cheap proxy on the script)
fn out_of_order(scn: &Scenario) -> bool {
    let mut last: Option<(u32, u64)> = None;
    for st in &scn.steps {
        for a in st {
            if let Action::Resolve { site, arg, .. } = a {
                if let Some(l) = last {
                    if (*site, *arg) < l {
                        return true;
                    }
                }
                last = Some((*site, *arg));
            }
        }
    }
    false
}

pub fn shape_of_cmd(c: &super::ast::Cmd) -> u64 {
    // structural hash without labels: serialise, blank the numbers
    let s = serde_json::to_string(c).unwrap_or_default();
    let t: String = s.chars().filter(|ch| !ch.is_ascii_digit()).collect();
    fnv(t.as_bytes())
}

// ------------------------------------------------------------------------------------------------
// buggify controller for single-threaded runs: spurious wake-ups

pub struct Buggify {
    rng: std::sync::Mutex<crate::rng::Rng>,
    fired: std::sync::atomic::AtomicU64,
}

impl Buggify {
    pub fn fired(&self) -> u64 {
        self.fired.load(std::sync::atomic::Ordering::SeqCst)
    }
}

impl crux_core::verif::Controller for Buggify {
    fn point(&self, _name: &'static str) {}
    fn lock_enter(&self, _name: &'static str, _addr: usize) {}
    fn lock_exit(&self, _name: &'static str, _addr: usize) {}
    fn buggify(&self, _name: &'static str) -> bool {
        let hit = self.rng.lock().unwrap().chance(1, 4);
        if hit {
            self.fired.fetch_add(1, std::sync::atomic::Ordering::SeqCst);
        }
        hit
    }
}

pub fn install_buggify(seed: u64) -> std::sync::Arc<Buggify> {
    let b = std::sync::Arc::new(Buggify {
        rng: std::sync::Mutex::new(crate::rng::Rng::new(seed ^ 0xB066)),
        fired: Default::default(),
    });
    crux_core::verif::set_thread_controller(Some(b.clone()));
    b
}
