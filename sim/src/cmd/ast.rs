//! Program AST: everything `update` can return, as data.

use serde::{Deserialize, Serialize};

/// Which operation type a shell leaf uses
#[derive(Clone, Copy, Debug, PartialEq, Eq, PartialOrd, Ord, Serialize, Deserialize, Hash)]
pub enum OpKind {
    A,
    B,
}

#[derive(Clone, Debug, PartialEq, Eq, Serialize, Deserialize, Hash)]
pub struct Leaf {
    pub site: u32,
    pub op: OpKind,
}

#[derive(Clone, Debug, PartialEq, Eq, Serialize, Deserialize, Hash)]
pub enum Stage {
    Map(u8),
    ThenRequest(Leaf),
    ThenStream(Leaf),
}

#[derive(Clone, Debug, PartialEq, Eq, Serialize, Deserialize, Hash)]
pub struct Chain {
    /// emitter label of the chain's task
    pub label: u32,
    pub first: Leaf,
    /// first leaf is a stream request
    pub stream: bool,
    pub stages: Vec<Stage>,
    pub tag: u32,
    /// command returned by `update` when an event of this chain is applied
    pub cont: Option<Box<Cmd>>,
}

#[derive(Clone, Debug, PartialEq, Eq, Serialize, Deserialize, Hash)]
pub struct Task {
    pub label: u32,
    pub stmts: Vec<Stmt>,
}

#[derive(Clone, Debug, PartialEq, Eq, Serialize, Deserialize, Hash)]
pub enum Stmt {
    Request(Leaf),
    /// command-API task awaiting a request made through the old capability API (a capability clone
    /// captured by the task); on hosts without capabilities an ordinary request
    CapRequest(Leaf),
    /// a request future created and dropped without being polled: nothing is sent, nothing is kept
    MakeAndDrop(Leaf),
    /// `n` events in a row without an await point in between (many outputs in one poll)
    Burst { n: u8, tag: u32 },
    Notify(Leaf),
    Emit { tag: u32, cont: Option<Box<Cmd>> },
    StreamLoop { leaf: Leaf, body: Vec<Stmt>, take: Option<u32> },
    Spawn { task: Task, slot: Option<u32> },
    Join(u32),
    AbortTask(u32),
    JoinAll(Vec<Task>),
    SelectFirst(Vec<Task>),
    Yield(u8),
    /// the task's own code panics here (a crash of app code in the middle of a call); only used by the
    /// task-fault histories of C03, never generated into modelled programs
    Fault,
    /// `builder.into_future(ctx).await`: a request chain without `then_send`; result becomes acc
    AwaitChain { first: Leaf, stages: Vec<Stage> },
    /// hold a drop-counted token until the task's future is dropped
    HoldToken,
    /// abort the command registered under this handle (e.g. the task's own command: a watchdog)
    AbortCmd(u32),
    /// create an unbounded channel `c` and spawn `task` holding one end of it; this task keeps the
    /// other end. `child_sends`: the child is the producer (it may `ChanSend(c)`), else the consumer.
    SpawnChan { c: u32, child_sends: bool, task: Task, slot: Option<u32> },
    /// send the current value into channel `c` (never blocks; ignored if the receiver is gone)
    ChanSend(u32),
    /// receive from channel `c` into the current value; blocks while the sender is alive; a closed,
    /// empty channel yields `chan_closed(current value)`
    ChanRecv(u32),
}

/// what a receive on a closed, empty channel makes of the current value (injective, so that values
/// stay attributable)
pub fn chan_closed(acc: u64) -> u64 {
    acc.wrapping_mul(7).wrapping_add(0xC105_ED00)
}

#[derive(Clone, Debug, PartialEq, Eq, Serialize, Deserialize, Hash)]
pub enum Cmd {
    Done,
    Event { tag: u32, label: u32 },
    Notify(Leaf),
    Render,
    Chain(Chain),
    Then(Box<Cmd>, Box<Cmd>),
    And(Box<Cmd>, Box<Cmd>),
    All(Vec<Cmd>),
    MapEffect(u8, Box<Cmd>),
    MapEvent(u8, Box<Cmd>),
    IntoFrom(Box<Cmd>),
    Async(Task),
    Abortable(u32, Box<Cmd>),
    /// old capability API (only meaningful under a Core host)
    Legacy(Task),
}

/// the value transformation applied by `Map(k)` stages (must be injective in v for fixed k)
pub fn mapf(k: u8, v: u64) -> u64 {
    v.wrapping_mul(3).wrapping_add(u64::from(k) + 1)
}

impl Cmd {
    pub fn size(&self) -> usize {
        match self {
            Cmd::Done | Cmd::Event { .. } | Cmd::Notify(_) | Cmd::Render => 1,
            Cmd::Chain(c) => 1 + c.stages.len() + c.cont.as_ref().map_or(0, |c| c.size()),
            Cmd::Then(a, b) | Cmd::And(a, b) => 1 + a.size() + b.size(),
            Cmd::All(xs) => 1 + xs.iter().map(Cmd::size).sum::<usize>(),
            Cmd::MapEffect(_, x) | Cmd::MapEvent(_, x) | Cmd::IntoFrom(x) | Cmd::Abortable(_, x) => 1 + x.size(),
            Cmd::Async(t) | Cmd::Legacy(t) => 1 + t.size(),
        }
    }

    /// does the program contain constructs that need one-action-per-settle driving
    pub fn has_races(&self) -> bool {
        let r = std::cell::Cell::new(false);
        self.visit(&mut |c| {
            if matches!(c, Cmd::Abortable(..)) {
                r.set(true);
            }
        }, &mut |s| {
            if matches!(s, Stmt::SelectFirst(_) | Stmt::AbortTask(_) | Stmt::AbortCmd(_)) {
                r.set(true);
            }
        });
        r.get()
    }

    pub fn has_legacy(&self) -> bool {
        let mut r = false;
        self.visit(&mut |c| {
            if matches!(c, Cmd::Legacy(..)) {
                r = true;
            }
        }, &mut |_| {});
        r
    }

    pub fn abort_handles(&self) -> Vec<u32> {
        let mut v = vec![];
        self.visit(&mut |c| {
            if let Cmd::Abortable(h, _) = c {
                v.push(*h);
            }
        }, &mut |_| {});
        v
    }

    /// For every abort handle that is instantiated exactly once (not inside a continuation): the labels
    /// of the command-API tasks it cancels - `own`: tasks of the aborted command itself (its first task
    /// and what that spawned), `nested`: tasks of commands hosted inside it. A handle on the left operand
    /// of `a.and(b)` covers `b` as well (as nested work). Tasks of the old capability API are not part of
    /// any command.
    pub fn abort_coverage(&self) -> std::collections::BTreeMap<u32, (std::collections::BTreeSet<u32>, std::collections::BTreeSet<u32>)> {
        use std::collections::{BTreeMap, BTreeSet};
        fn task_labels(t: &Task, out: &mut BTreeSet<u32>) {
            out.insert(t.label);
            for s in &t.stmts {
                stmt_labels(s, out);
            }
        }
        fn stmt_labels(s: &Stmt, out: &mut BTreeSet<u32>) {
            match s {
                Stmt::StreamLoop { body, .. } => body.iter().for_each(|b| stmt_labels(b, out)),
                Stmt::Spawn { task, .. } | Stmt::SpawnChan { task, .. } => task_labels(task, out),
                Stmt::JoinAll(ts) | Stmt::SelectFirst(ts) => ts.iter().for_each(|t| task_labels(t, out)),
                // continuations are new commands of their own
                _ => {}
            }
        }
        /// labels of all command-API tasks in `c` (not descending into continuations)
        fn all_labels(c: &Cmd, out: &mut BTreeSet<u32>) {
            match c {
                Cmd::Then(a, b) | Cmd::And(a, b) => {
                    all_labels(a, out);
                    all_labels(b, out);
                }
                Cmd::All(xs) => xs.iter().for_each(|x| all_labels(x, out)),
                Cmd::MapEffect(_, x) | Cmd::MapEvent(_, x) | Cmd::IntoFrom(x) | Cmd::Abortable(_, x) => all_labels(x, out),
                Cmd::Async(t) => task_labels(t, out),
                _ => {}
            }
        }
        /// returns the handles attached directly to (the inline spine of) `c`
        fn walk(c: &Cmd, res: &mut BTreeMap<u32, (BTreeSet<u32>, BTreeSet<u32>)>) -> Vec<u32> {
            match c {
                Cmd::Abortable(h, x) => {
                    let mut spine = walk(x, res);
                    let mut inner = x.as_ref();
                    while let Cmd::Abortable(_, y) = inner {
                        inner = y;
                    }
                    let mut own = BTreeSet::new();
                    let mut all = BTreeSet::new();
                    if let Cmd::Async(t) = inner {
                        task_labels(t, &mut own);
                    }
                    all_labels(inner, &mut all);
                    let nested: BTreeSet<u32> = all.difference(&own).copied().collect();
                    res.insert(*h, (own, nested));
                    spine.push(*h);
                    spine
                }
                Cmd::And(a, b) => {
                    let spine = walk(a, res);
                    walk(b, res);
                    // handles on the left operand belong to the combined command
                    let mut extra = BTreeSet::new();
                    all_labels(b, &mut extra);
                    for h in &spine {
                        if let Some(e) = res.get_mut(h) {
                            e.1.extend(extra.iter().copied());
                        }
                    }
                    spine
                }
                Cmd::Then(a, b) => {
                    walk(a, res);
                    walk(b, res);
                    vec![]
                }
                Cmd::All(xs) => {
                    xs.iter().for_each(|x| {
                        walk(x, res);
                    });
                    vec![]
                }
                Cmd::MapEffect(_, x) | Cmd::MapEvent(_, x) | Cmd::IntoFrom(x) => {
                    walk(x, res);
                    vec![]
                }
                _ => vec![],
            }
        }
        let mut res = BTreeMap::new();
        walk(self, &mut res);
        res
    }

    pub fn visit(&self, fc: &mut dyn FnMut(&Cmd), fs: &mut dyn FnMut(&Stmt)) {
        fc(self);
        match self {
            Cmd::Done | Cmd::Event { .. } | Cmd::Notify(_) | Cmd::Render => {}
            Cmd::Chain(c) => {
                if let Some(k) = &c.cont {
                    k.visit(fc, fs);
                }
            }
            Cmd::Then(a, b) | Cmd::And(a, b) => {
                a.visit(fc, fs);
                b.visit(fc, fs);
            }
            Cmd::All(xs) => xs.iter().for_each(|x| x.visit(fc, fs)),
            Cmd::MapEffect(_, x) | Cmd::MapEvent(_, x) | Cmd::IntoFrom(x) | Cmd::Abortable(_, x) => x.visit(fc, fs),
            Cmd::Async(t) | Cmd::Legacy(t) => t.visit(fc, fs),
        }
    }
}

impl Task {
    pub fn size(&self) -> usize {
        1 + self.stmts.iter().map(Stmt::size).sum::<usize>()
    }
    pub fn visit(&self, fc: &mut dyn FnMut(&Cmd), fs: &mut dyn FnMut(&Stmt)) {
        for s in &self.stmts {
            s.visit(fc, fs);
        }
    }
}

impl Stmt {
    pub fn size(&self) -> usize {
        match self {
            Stmt::StreamLoop { body, .. } => 1 + body.iter().map(Stmt::size).sum::<usize>(),
            Stmt::Spawn { task, .. } | Stmt::SpawnChan { task, .. } => 1 + task.size(),
            Stmt::JoinAll(ts) | Stmt::SelectFirst(ts) => 1 + ts.iter().map(Task::size).sum::<usize>(),
            Stmt::Emit { cont, .. } => 1 + cont.as_ref().map_or(0, |c| c.size()),
            Stmt::AwaitChain { stages, .. } => 1 + stages.len(),
            _ => 1,
        }
    }
    pub fn visit(&self, fc: &mut dyn FnMut(&Cmd), fs: &mut dyn FnMut(&Stmt)) {
        fs(self);
        match self {
            Stmt::StreamLoop { body, .. } => body.iter().for_each(|s| s.visit(fc, fs)),
            Stmt::Spawn { task, .. } | Stmt::SpawnChan { task, .. } => task.visit(fc, fs),
            Stmt::JoinAll(ts) | Stmt::SelectFirst(ts) => ts.iter().for_each(|t| t.visit(fc, fs)),
            Stmt::Emit { cont: Some(c), .. } => c.visit(fc, fs),
            _ => {}
        }
    }
}
