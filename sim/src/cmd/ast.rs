//! Program AST: everything `update` can return, as data.

use serde::{Deserialize, Serialize};

/// Which operation type a shell leaf uses
#[derive(Clone, Copy, Debug, PartialEq, Eq, PartialOrd, Ord, Serialize, Deserialize, Hash)]
pub enum OpKind {
    A,
    B,
}

#[derive(Clone, Debug, PartialEq, Eq, Serialize, Deserialize, Hash)]
pub struct Leaf {
    pub site: u32,
    pub op: OpKind,
}

#[derive(Clone, Debug, PartialEq, Eq, Serialize, Deserialize, Hash)]
pub enum Stage {
    Map(u8),
    ThenRequest(Leaf),
    ThenStream(Leaf),
}

#[derive(Clone, Debug, PartialEq, Eq, Serialize, Deserialize, Hash)]
pub struct Chain {
    /// emitter label of the chain's task
    pub label: u32,
    pub first: Leaf,
    /// first leaf is a stream request
    pub stream: bool,
    pub stages: Vec<Stage>,
    pub tag: u32,
    /// command returned by `update` when an event of this chain is applied
    pub cont: Option<Box<Cmd>>,
}

#[derive(Clone, Debug, PartialEq, Eq, Serialize, Deserialize, Hash)]
pub struct Task {
    pub label: u32,
    pub stmts: Vec<Stmt>,
}

#[derive(Clone, Debug, PartialEq, Eq, Serialize, Deserialize, Hash)]
pub enum Stmt {
    Request(Leaf),
    /// command-API task awaiting a request made through the old capability API (a capability clone
    /// captured by the task); on hosts without capabilities an ordinary request
    CapRequest(Leaf),
    Notify(Leaf),
    Emit { tag: u32, cont: Option<Box<Cmd>> },
    StreamLoop { leaf: Leaf, body: Vec<Stmt>, take: Option<u32> },
    Spawn { task: Task, slot: Option<u32> },
    Join(u32),
    AbortTask(u32),
    JoinAll(Vec<Task>),
    SelectFirst(Vec<Task>),
    Yield(u8),
    /// `builder.into_future(ctx).await`: a request chain without `then_send`; result becomes acc
    AwaitChain { first: Leaf, stages: Vec<Stage> },
    /// hold a drop-counted token until the task's future is dropped
    HoldToken,
    /// abort the command registered under this handle (e.g. the task's own command: a watchdog)
    AbortCmd(u32),
    /// create an unbounded channel `c` and spawn `task` holding one end of it; this task keeps the
    /// other end. `child_sends`: the child is the producer (it may `ChanSend(c)`), else the consumer.
    SpawnChan { c: u32, child_sends: bool, task: Task, slot: Option<u32> },
    /// send the current value into channel `c` (never blocks; ignored if the receiver is gone)
    ChanSend(u32),
    /// receive from channel `c` into the current value; blocks while the sender is alive; a closed,
    /// empty channel yields `chan_closed(current value)`
    ChanRecv(u32),
}

/// what a receive on a closed, empty channel makes of the current value (injective, so that values
/// stay attributable)
pub fn chan_closed(acc: u64) -> u64 {
    acc.wrapping_mul(7).wrapping_add(0xC105_ED00)
}

#[derive(Clone, Debug, PartialEq, Eq, Serialize, Deserialize, Hash)]
pub enum Cmd {
    Done,
    Event { tag: u32, label: u32 },
    Notify(Leaf),
    Render,
    Chain(Chain),
    Then(Box<Cmd>, Box<Cmd>),
    And(Box<Cmd>, Box<Cmd>),
    All(Vec<Cmd>),
    MapEffect(u8, Box<Cmd>),
    MapEvent(u8, Box<Cmd>),
    IntoFrom(Box<Cmd>),
    Async(Task),
    Abortable(u32, Box<Cmd>),
    /// old capability API (only meaningful under a Core host)
    Legacy(Task),
}

/// the value transformation applied by `Map(k)` stages (must be injective in v for fixed k)
pub fn mapf(k: u8, v: u64) -> u64 {
    v.wrapping_mul(3).wrapping_add(u64::from(k) + 1)
}

impl Cmd {
    pub fn size(&self) -> usize {
        match self {
            Cmd::Done | Cmd::Event { .. } | Cmd::Notify(_) | Cmd::Render => 1,
            Cmd::Chain(c) => 1 + c.stages.len() + c.cont.as_ref().map_or(0, |c| c.size()),
            Cmd::Then(a, b) | Cmd::And(a, b) => 1 + a.size() + b.size(),
            Cmd::All(xs) => 1 + xs.iter().map(Cmd::size).sum::<usize>(),
            Cmd::MapEffect(_, x) | Cmd::MapEvent(_, x) | Cmd::IntoFrom(x) | Cmd::Abortable(_, x) => 1 + x.size(),
            Cmd::Async(t) | Cmd::Legacy(t) => 1 + t.size(),
        }
    }

    /// does the program contain constructs that need one-action-per-settle driving
    pub fn has_races(&self) -> bool {
        let r = std::cell::Cell::new(false);
        self.visit(&mut |c| {
            if matches!(c, Cmd::Abortable(..)) {
                r.set(true);
            }
        }, &mut |s| {
            if matches!(s, Stmt::SelectFirst(_) | Stmt::AbortTask(_) | Stmt::AbortCmd(_)) {
                r.set(true);
            }
        });
        r.get()
    }

    pub fn has_legacy(&self) -> bool {
        let mut r = false;
        self.visit(&mut |c| {
            if matches!(c, Cmd::Legacy(..)) {
                r = true;
            }
        }, &mut |_| {});
        r
    }

    pub fn abort_handles(&self) -> Vec<u32> {
        let mut v = vec![];
        self.visit(&mut |c| {
            if let Cmd::Abortable(h, _) = c {
                v.push(*h);
            }
        }, &mut |_| {});
        v
    }

    pub fn visit(&self, fc: &mut dyn FnMut(&Cmd), fs: &mut dyn FnMut(&Stmt)) {
        fc(self);
        match self {
            Cmd::Done | Cmd::Event { .. } | Cmd::Notify(_) | Cmd::Render => {}
            Cmd::Chain(c) => {
                if let Some(k) = &c.cont {
                    k.visit(fc, fs);
                }
            }
            Cmd::Then(a, b) | Cmd::And(a, b) => {
                a.visit(fc, fs);
                b.visit(fc, fs);
            }
            Cmd::All(xs) => xs.iter().for_each(|x| x.visit(fc, fs)),
            Cmd::MapEffect(_, x) | Cmd::MapEvent(_, x) | Cmd::IntoFrom(x) | Cmd::Abortable(_, x) => x.visit(fc, fs),
            Cmd::Async(t) | Cmd::Legacy(t) => t.visit(fc, fs),
        }
    }
}

impl Task {
    pub fn size(&self) -> usize {
        1 + self.stmts.iter().map(Stmt::size).sum::<usize>()
    }
    pub fn visit(&self, fc: &mut dyn FnMut(&Cmd), fs: &mut dyn FnMut(&Stmt)) {
        for s in &self.stmts {
            s.visit(fc, fs);
        }
    }
}

impl Stmt {
    pub fn size(&self) -> usize {
        match self {
            Stmt::StreamLoop { body, .. } => 1 + body.iter().map(Stmt::size).sum::<usize>(),
            Stmt::Spawn { task, .. } | Stmt::SpawnChan { task, .. } => 1 + task.size(),
            Stmt::JoinAll(ts) | Stmt::SelectFirst(ts) => 1 + ts.iter().map(Task::size).sum::<usize>(),
            Stmt::Emit { cont, .. } => 1 + cont.as_ref().map_or(0, |c| c.size()),
            Stmt::AwaitChain { stages, .. } => 1 + stages.len(),
            _ => 1,
        }
    }
    pub fn visit(&self, fc: &mut dyn FnMut(&Cmd), fs: &mut dyn FnMut(&Stmt)) {
        fs(self);
        match self {
            Stmt::StreamLoop { body, .. } => body.iter().for_each(|s| s.visit(fc, fs)),
            Stmt::Spawn { task, .. } | Stmt::SpawnChan { task, .. } => task.visit(fc, fs),
            Stmt::JoinAll(ts) | Stmt::SelectFirst(ts) => ts.iter().for_each(|t| t.visit(fc, fs)),
            Stmt::Emit { cont: Some(c), .. } => c.visit(fc, fs),
            _ => {}
        }
    }
}
