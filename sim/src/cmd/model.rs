//! Reference model: a small synchronous interpreter of the program AST implementing the
//! documented semantics of commands, builder chains and tasks. It shares nothing with the
//! real build except the AST type. See DESIGN.md §2.3 and Appendix B.

use std::collections::{BTreeMap, BTreeSet, VecDeque};

use serde::{Deserialize, Serialize};

use super::ast::{mapf, Chain, Cmd, Leaf, OpKind, Stage, Stmt, Task};
use super::ops::{Event, LogEntry};

pub type ReqKey = (u32, u64);
pub const RENDER_SITE: u32 = u32::MAX;

#[derive(Clone, Copy, Debug, PartialEq, Eq, PartialOrd, Ord, Serialize, Deserialize)]
pub enum Arity {
    Never,
    Once,
    Many,
}

#[derive(Clone, Copy, Debug, PartialEq, Eq, PartialOrd, Ord, Serialize, Deserialize)]
pub enum OpName {
    A,
    B,
    Render,
}

impl From<OpKind> for OpName {
    fn from(k: OpKind) -> Self {
        match k {
            OpKind::A => OpName::A,
            OpKind::B => OpName::B,
        }
    }
}

#[derive(Clone, Debug, PartialEq, Eq, PartialOrd, Ord, Serialize, Deserialize)]
pub struct EffectDesc {
    pub site: u32,
    pub arg: u64,
    pub op: OpName,
    pub arity: Arity,
    pub trace: Vec<u8>,
}

#[derive(Clone, Debug, PartialEq, Eq)]
pub struct EvDesc {
    pub tag: u32,
    pub val: u64,
    pub trace: Vec<u8>,
    pub em_label: u32,
    pub em_start: u64,
    pub seq: u32,
    pub cont: Option<Box<Cmd>>,
}

#[derive(Clone, Debug, PartialEq, Eq)]
pub enum Out {
    Effect(EffectDesc),
    /// an effect that bypasses the command's output channel (old capability API used from a command task)
    CapEffect(EffectDesc),
    Event(EvDesc),
}

#[derive(Clone, Copy, Debug, PartialEq, Eq, Serialize, Deserialize)]
pub enum Outcome {
    Accepted,
    Rejected,
    Unknown,
}

#[derive(Clone, Debug, PartialEq, Eq)]
pub struct ReqState {
    pub arity: Arity,
    pub op: OpName,
    /// one-shot already resolved
    pub resolved: bool,
    /// the shell dropped the request value
    pub dropped: bool,
    /// the consumer's receiving end still exists
    pub rx_alive: bool,
    pub queue: VecDeque<u64>,
    /// something happened to this request since the last settle (resolve / item / drop)
    pub woke: bool,
    pub legacy: bool,
    /// task (or chain) that issued the request
    pub owner: u64,
}

#[derive(Clone, Debug, PartialEq, Eq)]
pub struct Chan {
    pub queue: VecDeque<u64>,
    pub tx_alive: bool,
    pub rx_alive: bool,
    pub woke: bool,
}

#[derive(Clone, Debug, Default, PartialEq, Eq)]
pub struct StepOut {
    pub effects: Vec<EffectDesc>,
    pub log: Vec<LogEntry>,
}

#[derive(Clone, Debug, PartialEq, Eq)]
pub struct Globals {
    pub reqs: BTreeMap<ReqKey, ReqState>,
    /// handle id -> the command instance it was taken from most recently (registration is a build-time act)
    pub handle_owner: BTreeMap<u32, u64>,
    pub aborted_cmds: BTreeSet<u64>,
    /// commands aborted by one of the running tasks in the current settle
    pub cmds_aborted_this_settle: BTreeSet<u64>,
    /// aborts issued by running tasks: noticed when the command is next polled, i.e. once the
    /// tasks that are running now have come to rest
    pub pending_task_aborts: Vec<u64>,
    /// this settle: tasks that resumed from a wait on something inside the program / that aborted a command
    pub internal_resumes: BTreeSet<u64>,
    pub task_aborters: BTreeSet<u64>,
    /// commands being run right now, outermost first
    pub cmd_stack: Vec<u64>,
    /// this settle: what made progress (task / chain / one-shot command uid) under which commands
    pub ran_under: Vec<(u64, Vec<u64>)>,
    /// this settle: (aborting task, aborted command)
    pub task_aborts: Vec<(u64, u64)>,
    /// which task spawned which
    pub spawned_by: BTreeMap<u64, u64>,
    pub spawned_this_settle: BTreeSet<u64>,
    /// tasks spawned in the poll that is running right now: they cannot have started yet
    pub fresh_in_poll: BTreeSet<u64>,
    pub local_rounds: u64,
    /// left operand of an `and` -> the combined command it is part of
    pub inline_parent: BTreeMap<u64, u64>,
    /// task-to-task channels by instance
    pub chans: BTreeMap<u64, Chan>,
    /// the reference evicted something the implementation is known to keep (see known findings)
    pub sticky: Option<String>,
    /// this candidate follows the implementation's known divergence (S12) instead of the property
    pub keep_sticky: bool,
    pub sticky_kept: bool,
    /// task / chain currently running (owner of the requests it issues)
    pub cur_owner: u64,
    pub aborted_tasks: BTreeSet<u64>,
    pub aborted_this_settle: BTreeSet<u64>,
    pub ran_this_settle: BTreeSet<u64>,
    pub live_tasks: BTreeSet<u64>,
    pub next_uid: u64,
    pub tokens: i64,
    pub ambiguous: Option<String>,
    pub reap: BTreeSet<u64>,
    pub optional_zombies: BTreeSet<u64>,
    pub progress: bool,
    pub legacy_spawn: Vec<TaskSt>,
    pub legacy_supported: bool,
    /// C13 only: the shell may drop one-shot requests of the old capability API, and the reference then
    /// expects the task to be released like any other task that can never be woken again
    pub legacy_drops: bool,
    /// probes
    pub evictions: u64,
    pub zombies_reaped: u64,
    pub immediate_reaps: u64,
}

impl Globals {
    fn uid(&mut self) -> u64 {
        self.next_uid += 1;
        self.next_uid
    }

    fn emit_req(&mut self, key: ReqKey, op: OpKind, arity: Arity, outs: &mut Vec<Out>, legacy: bool) {
        if self.reqs.contains_key(&key) {
            self.ambiguous = Some(format!("duplicate request instance {key:?}"));
        }
        self.reqs.insert(
            key,
            ReqState {
                arity,
                op: op.into(),
                resolved: false,
                dropped: false,
                rx_alive: arity != Arity::Never,
                queue: VecDeque::new(),
                woke: false,
                legacy,
                owner: self.cur_owner,
            },
        );
        outs.push(Out::Effect(EffectDesc { site: key.0, arg: key.1, op: op.into(), arity, trace: vec![] }));
        self.progress = true;
    }

    fn take_value(&mut self, key: ReqKey) -> Option<u64> {
        let v = self.reqs.get_mut(&key).and_then(|r| r.queue.pop_front());
        if v.is_some() {
            self.progress = true;
        }
        v
    }

    fn has_value(&self, key: ReqKey) -> bool {
        self.reqs.get(&key).is_some_and(|r| !r.queue.is_empty())
    }

    /// sender side gone (stream ended by the shell / one-shot dropped unresolved)
    fn is_dropped(&self, key: ReqKey) -> bool {
        self.reqs.get(&key).is_some_and(|r| r.dropped)
    }

    fn close_rx(&mut self, key: ReqKey) {
        if let Some(r) = self.reqs.get_mut(&key) {
            r.rx_alive = false;
            r.queue.clear();
        }
    }

    /// A task aborting a command and another task resuming from a self-wake, a join or a channel in
    /// the same settle: what the resumed task still gets to do depends on the order in which the
    /// executor polls the two (crux: first come first served, and the first task of an aborted
    /// command is not polled again at all) - not something the properties fix.
    fn check_abort_vs_internal_resume(&mut self) {
        // (also when it is the aborting task itself that was woken from inside: it then runs in a later
        // round of the pass, and what the other tasks did before that is a matter of queue order)
        if !self.task_aborters.is_empty() && !self.internal_resumes.is_empty() {
            self.ambiguous = Some("task-issued abort and an internally woken task in one settle".into());
        }
    }

    /// A task aborts command X in a settle in which something else under X made progress too (other than
    /// the tasks that - directly or indirectly - spawned the aborting task, which necessarily ran before
    /// it): whether that something ran before or after the abort is a matter of the order in which the
    /// executor happens to poll (first come first served, spawned tasks first, ...), which no property fixes.
    fn check_abort_vs_siblings(&mut self) {
        for (a, x) in &self.task_aborts {
            let mut anc = BTreeSet::new();
            let mut u = *a;
            while let Some(p) = self.spawned_by.get(&u) {
                if !anc.insert(*p) {
                    break;
                }
                u = *p;
            }
            if self.ran_under.iter().any(|(t, stack)| t != a && !anc.contains(t) && stack.contains(x)) {
                self.ambiguous = Some("task-issued abort while other work under the same command made progress in the settle".into());
                return;
            }
        }
    }

    /// is this command, or the combined command it is an inline part of, aborted?
    fn aborted_here_or_inline(&self, uid: u64) -> bool {
        let mut u = uid;
        loop {
            if self.aborted_cmds.contains(&u) {
                return true;
            }
            match self.inline_parent.get(&u) {
                Some(p) => u = *p,
                None => return false,
            }
        }
    }

    fn woke(&self, key: ReqKey) -> bool {
        self.reqs.get(&key).is_some_and(|r| r.woke)
    }

    /// Requests issued by `owner` whose receiving end is gone while the shell still holds them
    /// unresolved (losing branches of a select, streams left early). Until they are resolved or
    /// dropped the properties do not say whether a task that can make no progress is discarded.
    fn has_ghosts(&self, owner: u64) -> bool {
        self.reqs.values().any(|r| {
            r.owner == owner
                && !r.rx_alive
                && !r.dropped
                && match r.arity {
                    Arity::Never => false,
                    Arity::Once => !r.resolved,
                    Arity::Many => true,
                }
        })
    }
}

// ------------------------------------------------------------------------------------------------
// waits (what a suspended computation holds)

#[derive(Clone, Copy, Debug)]
pub enum WaitKind {
    Req,
    Stream,
    Join,
    /// woke itself: will be polled again without outside help
    SelfWake,
    /// blocked receiving from a task-to-task channel whose sender is alive (uid = channel instance)
    Chan,
}

#[derive(Clone, Copy, Debug)]
pub struct Wait {
    pub kind: WaitKind,
    pub key: ReqKey,
    pub uid: u64,
    /// sequentially nested inside the consumer of a live stream
    pub under_stream: bool,
    /// the wait is actually polled (registers the current waker) when its task runs
    pub polled: bool,
}

fn wait_live(g: &Globals, w: &Wait) -> bool {
    match w.kind {
        WaitKind::Req | WaitKind::Stream => !g.is_dropped(w.key) && !g.has_value(w.key),
        WaitKind::Join => g.live_tasks.contains(&w.uid),
        WaitKind::SelfWake => true,
        WaitKind::Chan => g.chans.get(&w.uid).is_some_and(|c| c.tx_alive && c.queue.is_empty()),
    }
}

fn wait_fired(g: &Globals, w: &Wait) -> bool {
    match w.kind {
        WaitKind::Req | WaitKind::Stream => g.woke(w.key),
        WaitKind::Join => !g.live_tasks.contains(&w.uid),
        WaitKind::SelfWake => true,
        WaitKind::Chan => g.chans.get(&w.uid).is_none_or(|c| c.woke || !c.tx_alive || !c.queue.is_empty()),
    }
}

// ------------------------------------------------------------------------------------------------
// builder chains: pull-based pipeline

#[derive(Clone, Debug, PartialEq, Eq)]
enum Up {
    ReqLeaf { leaf: Leaf, arg: u64, key: Option<ReqKey>, done: bool },
    StreamLeaf { leaf: Leaf, arg: u64, key: Option<ReqKey>, ended: bool },
    Map { k: u8, up: Box<Up> },
    ThenReq { up: Box<Up>, leaf: Leaf, cur: Option<ReqKey>, up_ended: bool },
    /// request.then_stream: flat_map over a single item
    ThenStreamR { up: Box<Up>, leaf: Leaf, inner: Option<ReqKey>, up_ended: bool },
    /// stream.then_stream: flatten_unordered
    ThenStreamS { up: Box<Up>, leaf: Leaf, inners: Vec<ReqKey>, up_ended: bool },
}

enum PollR {
    Item(u64),
    Pending,
    End,
}

fn build_up(first: &Leaf, stream: bool, arg: u64, stages: &[Stage]) -> Up {
    let mut up = if stream {
        Up::StreamLeaf { leaf: first.clone(), arg, key: None, ended: false }
    } else {
        Up::ReqLeaf { leaf: first.clone(), arg, key: None, done: false }
    };
    let mut is_stream = stream;
    for st in stages {
        up = match st {
            Stage::Map(k) => Up::Map { k: *k, up: Box::new(up) },
            Stage::ThenRequest(l) => Up::ThenReq { up: Box::new(up), leaf: l.clone(), cur: None, up_ended: false },
            Stage::ThenStream(l) => {
                if is_stream {
                    Up::ThenStreamS { up: Box::new(up), leaf: l.clone(), inners: vec![], up_ended: false }
                } else {
                    is_stream = true;
                    Up::ThenStreamR { up: Box::new(up), leaf: l.clone(), inner: None, up_ended: false }
                }
            }
        };
    }
    up
}

impl Up {
    fn poll(&mut self, g: &mut Globals, outs: &mut Vec<Out>) -> PollR {
        match self {
            Up::ReqLeaf { leaf, arg, key, done } => {
                if *done {
                    return PollR::End;
                }
                if key.is_none() {
                    let k = (leaf.site, *arg);
                    g.emit_req(k, leaf.op, Arity::Once, outs, false);
                    *key = Some(k);
                }
                match g.take_value(key.unwrap()) {
                    Some(v) => {
                        *done = true;
                        PollR::Item(v)
                    }
                    None => PollR::Pending,
                }
            }
            Up::StreamLeaf { leaf, arg, key, ended } => {
                if *ended {
                    return PollR::End;
                }
                if key.is_none() {
                    let k = (leaf.site, *arg);
                    g.emit_req(k, leaf.op, Arity::Many, outs, false);
                    *key = Some(k);
                }
                let k = key.unwrap();
                match g.take_value(k) {
                    Some(v) => PollR::Item(v),
                    None => {
                        if g.is_dropped(k) {
                            *ended = true;
                            g.close_rx(k);
                            g.progress = true;
                            PollR::End
                        } else {
                            PollR::Pending
                        }
                    }
                }
            }
            Up::Map { k, up } => match up.poll(g, outs) {
                PollR::Item(v) => PollR::Item(mapf(*k, v)),
                other => other,
            },
            Up::ThenReq { up, leaf, cur, up_ended } => loop {
                if let Some(k) = *cur {
                    return match g.take_value(k) {
                        Some(v) => {
                            *cur = None;
                            PollR::Item(v)
                        }
                        None => PollR::Pending,
                    };
                }
                if *up_ended {
                    return PollR::End;
                }
                match up.poll(g, outs) {
                    PollR::Item(v) => {
                        let k = (leaf.site, v);
                        g.emit_req(k, leaf.op, Arity::Once, outs, false);
                        *cur = Some(k);
                    }
                    PollR::Pending => return PollR::Pending,
                    PollR::End => {
                        *up_ended = true;
                        return PollR::End;
                    }
                }
            },
            Up::ThenStreamR { up, leaf, inner, up_ended } => loop {
                if let Some(k) = *inner {
                    match g.take_value(k) {
                        Some(v) => return PollR::Item(v),
                        None => {
                            if g.is_dropped(k) {
                                g.close_rx(k);
                                *inner = None;
                                g.progress = true;
                                continue;
                            }
                            return PollR::Pending;
                        }
                    }
                }
                if *up_ended {
                    return PollR::End;
                }
                match up.poll(g, outs) {
                    PollR::Item(v) => {
                        let k = (leaf.site, v);
                        g.emit_req(k, leaf.op, Arity::Many, outs, false);
                        *inner = Some(k);
                    }
                    PollR::Pending => return PollR::Pending,
                    PollR::End => {
                        *up_ended = true;
                    }
                }
            },
            Up::ThenStreamS { up, leaf, inners, up_ended } => {
                // the outer stream is polled concurrently with the inner ones
                let ready_before = inners.iter().filter(|k| g.has_value(**k)).count();
                let mut opened = 0;
                while !*up_ended {
                    match up.poll(g, outs) {
                        PollR::Item(v) => {
                            let k = (leaf.site, v);
                            g.emit_req(k, leaf.op, Arity::Many, outs, false);
                            inners.push(k);
                            opened += 1;
                        }
                        PollR::Pending => break,
                        PollR::End => *up_ended = true,
                    }
                }
                // which of several pending inputs (new outer items, items of different inner
                // streams) is taken first is not fixed by the API; with a sequential consumer
                // downstream the choice is observable, so such runs are not judged
                if ready_before + opened > 1 {
                    g.ambiguous = Some("then_stream has several pending inputs at once".into());
                }
                let mut i = 0;
                while i < inners.len() {
                    let k = inners[i];
                    if let Some(v) = g.take_value(k) {
                        return PollR::Item(v);
                    }
                    if g.is_dropped(k) {
                        g.close_rx(k);
                        inners.remove(i);
                        g.progress = true;
                    } else {
                        i += 1;
                    }
                }
                if *up_ended && inners.is_empty() {
                    PollR::End
                } else {
                    PollR::Pending
                }
            }
        }
    }

    /// does a poll of this pipeline reach a `flatten_unordered` (which keeps a clone of the waker)?
    fn polls_flatten_unordered(&self, polled: bool) -> bool {
        match self {
            Up::ReqLeaf { .. } | Up::StreamLeaf { .. } => false,
            Up::Map { up, .. } => up.polls_flatten_unordered(polled),
            Up::ThenReq { up, cur, .. } => up.polls_flatten_unordered(polled && cur.is_none()),
            Up::ThenStreamR { up, inner, .. } => up.polls_flatten_unordered(polled && inner.is_none()),
            Up::ThenStreamS { .. } => polled,
        }
    }

    fn has_live_stream(&self, g: &Globals) -> bool {
        match self {
            Up::ReqLeaf { .. } => false,
            Up::StreamLeaf { key, ended, .. } => key.is_some_and(|k| !*ended && !g.is_dropped(k)),
            Up::Map { up, .. } => up.has_live_stream(g),
            Up::ThenReq { up, .. } => up.has_live_stream(g),
            Up::ThenStreamR { up, inner, .. } => inner.is_some_and(|k| !g.is_dropped(k)) || up.has_live_stream(g),
            Up::ThenStreamS { up, inners, .. } => {
                inners.iter().any(|k| !g.is_dropped(*k)) || up.has_live_stream(g)
            }
        }
    }

    fn visit_waits(&self, g: &Globals, under: bool, polled: bool, f: &mut dyn FnMut(Wait)) {
        match self {
            Up::ReqLeaf { key, done, .. } => {
                if let (Some(k), false) = (key, done) {
                    f(Wait { kind: WaitKind::Req, key: *k, uid: 0, under_stream: under, polled });
                }
            }
            Up::StreamLeaf { key, ended, .. } => {
                if let (Some(k), false) = (key, ended) {
                    f(Wait { kind: WaitKind::Stream, key: *k, uid: 0, under_stream: under, polled });
                }
            }
            Up::Map { up, .. } => up.visit_waits(g, under, polled, f),
            Up::ThenReq { up, cur, .. } => {
                if let Some(k) = cur {
                    let u = under || up.has_live_stream(g);
                    f(Wait { kind: WaitKind::Req, key: *k, uid: 0, under_stream: u, polled });
                    // upstream is held but not polled while the request is pending
                    up.visit_waits(g, under, false, f);
                } else {
                    up.visit_waits(g, under, polled, f);
                }
            }
            Up::ThenStreamR { up, inner, .. } => {
                if let Some(k) = inner {
                    f(Wait { kind: WaitKind::Stream, key: *k, uid: 0, under_stream: under, polled });
                    up.visit_waits(g, under, false, f);
                } else {
                    up.visit_waits(g, under, polled, f);
                }
            }
            Up::ThenStreamS { up, inners, .. } => {
                for k in inners {
                    f(Wait { kind: WaitKind::Stream, key: *k, uid: 0, under_stream: under, polled });
                }
                up.visit_waits(g, under, polled, f);
            }
        }
    }
}

// ------------------------------------------------------------------------------------------------
// tasks

#[derive(Clone, Debug, PartialEq, Eq)]
struct Branch {
    seq: Seq,
    finished: bool,
}

#[derive(Clone, Debug, PartialEq, Eq)]
enum Blk {
    Req(ReqKey),
    Loop { key: ReqKey, n: u32, in_body: bool },
    Join(u64),
    /// blocked receiving from this channel instance
    Recv(u64),
    /// self-waking yields still to go: each one ends the current poll and asks for another
    Yield(u8),
    JoinAll(Vec<Branch>),
    Select(Vec<Branch>),
    Chain(Up),
}

#[derive(Clone, Debug, PartialEq, Eq)]
struct Frame {
    stmts: Vec<Stmt>,
    pc: usize,
    blk: Option<Blk>,
}

#[derive(Clone, Debug, PartialEq, Eq)]
pub struct Seq {
    acc: u64,
    em_label: u32,
    em_start: u64,
    seq: u32,
    slots: BTreeMap<u32, u64>,
    tokens: i64,
    frames: Vec<Frame>,
    legacy: bool,
    /// channel ends this task holds: channel id -> instance
    tx: BTreeMap<u32, u64>,
    rx: BTreeMap<u32, u64>,
}

impl Seq {
    /// a branch of a join / select: starts with a copy of the enclosing task's join handles
    fn branch(task: &Task, init: u64, legacy: bool, slots: &BTreeMap<u32, u64>) -> Seq {
        let mut s = Seq::new(task, init, legacy);
        s.slots = slots.clone();
        s
    }

    fn new(task: &Task, init: u64, legacy: bool) -> Seq {
        Seq {
            acc: init,
            em_label: task.label,
            em_start: init,
            seq: 0,
            slots: BTreeMap::new(),
            tokens: 0,
            frames: vec![Frame { stmts: task.stmts.clone(), pc: 0, blk: None }],
            legacy,
            tx: BTreeMap::new(),
            rx: BTreeMap::new(),
        }
    }

    /// run until blocked; true = finished (result in self.acc)
    fn run(&mut self, g: &mut Globals, outs: &mut Vec<Out>, spawned: &mut Vec<TaskSt>) -> bool {
        loop {
            let depth = self.frames.len();
            let Some(frame) = self.frames.last_mut() else {
                g.tokens -= self.tokens;
                self.tokens = 0;
                self.drop_chan_ends(g);
                return true;
            };
            if frame.pc >= frame.stmts.len() {
                self.frames.pop();
                g.progress = true;
                if let Some(parent) = self.frames.last_mut() {
                    // a loop body finished
                    if let Some(Blk::Loop { n, in_body, .. }) = &mut parent.blk {
                        *n += 1;
                        *in_body = false;
                    }
                }
                continue;
            }
            let _ = depth;
            let stmt = frame.stmts[frame.pc].clone();
            let is_cap = matches!(stmt, Stmt::CapRequest(_));
            match stmt {
                Stmt::Request(leaf) | Stmt::CapRequest(leaf) => {
                    if frame.blk.is_none() {
                        let key = (leaf.site, self.acc);
                        frame.blk = Some(Blk::Req(key));
                        let through_caps = self.legacy || (is_cap && g.legacy_supported);
                        if through_caps && !self.legacy {
                            // goes to the shell through the capability channel, not through the
                            // command's outputs: no mapping of an enclosing command applies to it
                            let mut tmp = vec![];
                            g.emit_req(key, leaf.op, Arity::Once, &mut tmp, true);
                            for o in tmp {
                                if let Out::Effect(e) = o {
                                    outs.push(Out::CapEffect(e));
                                }
                            }
                        } else {
                            g.emit_req(key, leaf.op, Arity::Once, outs, self.legacy);
                        }
                    }
                    let Some(Blk::Req(key)) = frame.blk else { unreachable!() };
                    match g.take_value(key) {
                        Some(v) => {
                            self.acc = v;
                            frame.blk = None;
                            frame.pc += 1;
                        }
                        None => return false,
                    }
                }
                Stmt::Notify(leaf) => {
                    g.emit_req((leaf.site, self.acc), leaf.op, Arity::Never, outs, self.legacy);
                    frame.pc += 1;
                }
                Stmt::MakeAndDrop(_) => {
                    frame.pc += 1;
                }
                Stmt::Burst { n, tag } => {
                    for _ in 0..n {
                        outs.push(Out::Event(EvDesc {
                            tag,
                            val: self.acc,
                            trace: vec![],
                            em_label: self.em_label,
                            em_start: self.em_start,
                            seq: self.seq,
                            cont: None,
                        }));
                        self.seq += 1;
                    }
                    frame.pc += 1;
                    g.progress = true;
                }
                Stmt::Emit { tag, cont } => {
                    outs.push(Out::Event(EvDesc {
                        tag,
                        val: self.acc,
                        trace: vec![],
                        em_label: self.em_label,
                        em_start: self.em_start,
                        seq: self.seq,
                        cont,
                    }));
                    self.seq += 1;
                    frame.pc += 1;
                    g.progress = true;
                }
                Stmt::StreamLoop { leaf, body, take } => {
                    if frame.blk.is_none() {
                        if take == Some(0) {
                            frame.pc += 1;
                            continue;
                        }
                        let key = (leaf.site, self.acc);
                        frame.blk = Some(Blk::Loop { key, n: 0, in_body: false });
                        g.emit_req(key, leaf.op, Arity::Many, outs, self.legacy);
                    }
                    let Some(Blk::Loop { key, n, in_body }) = &mut frame.blk else { unreachable!() };
                    debug_assert!(!*in_body);
                    let key = *key;
                    if take.is_some_and(|t| *n >= t) {
                        g.close_rx(key);
                        frame.blk = None;
                        frame.pc += 1;
                        g.progress = true;
                        continue;
                    }
                    match g.take_value(key) {
                        Some(v) => {
                            self.acc = v;
                            *in_body = true;
                            self.frames.push(Frame { stmts: body, pc: 0, blk: None });
                        }
                        None => {
                            if g.is_dropped(key) {
                                g.close_rx(key);
                                frame.blk = None;
                                frame.pc += 1;
                                g.progress = true;
                            } else {
                                return false;
                            }
                        }
                    }
                }
                Stmt::Spawn { task, slot } => {
                    let uid = g.uid();
                    g.live_tasks.insert(uid);
                    g.spawned_by.insert(uid, g.cur_owner);
                    g.spawned_this_settle.insert(uid);
                    g.fresh_in_poll.insert(uid);
                    // (the child's copy of the handles is taken before its own handle exists)
                    let child = if self.legacy { Seq::new(&task, self.acc, self.legacy) } else { Seq::branch(&task, self.acc, self.legacy, &self.slots) };
                    if let Some(s) = slot {
                        self.slots.insert(s, uid);
                    }
                    let t = TaskSt { uid, seq: child, polled: false };
                    if self.legacy {
                        g.legacy_spawn.push(t);
                    } else {
                        spawned.push(t);
                    }
                    frame.pc += 1;
                    g.progress = true;
                }
                Stmt::Join(slot) => match self.slots.get(&slot) {
                    None => frame.pc += 1,
                    Some(uid) => {
                        if g.live_tasks.contains(uid) {
                            frame.blk = Some(Blk::Join(*uid));
                            return false;
                        }
                        if frame.blk.is_some() {
                            g.internal_resumes.insert(g.cur_owner);
                            g.check_abort_vs_internal_resume();
                        }
                        frame.blk = None;
                        frame.pc += 1;
                        g.progress = true;
                    }
                },
                Stmt::AbortTask(slot) => {
                    if let Some(uid) = self.slots.get(&slot) {
                        if (g.ran_this_settle.contains(uid) || (g.spawned_this_settle.contains(uid) && !g.fresh_in_poll.contains(uid))) && !g.aborted_tasks.contains(uid) {
                            // whether the target ran before the abort depends on queue order
                            g.ambiguous = Some("task aborted in the settle in which it ran".into());
                        }
                        if g.live_tasks.contains(uid) && !g.aborted_tasks.contains(uid) {
                            g.aborted_tasks.insert(*uid);
                            g.aborted_this_settle.insert(*uid);
                        }
                    }
                    frame.pc += 1;
                    g.progress = true;
                }
                Stmt::JoinAll(ts) => {
                    if frame.blk.is_none() {
                        let bs = ts
                            .iter()
                            .map(|t| Branch { seq: Seq::branch(t, self.acc, self.legacy, &self.slots), finished: false })
                            .collect();
                        frame.blk = Some(Blk::JoinAll(bs));
                    }
                    let Some(Blk::JoinAll(bs)) = &mut frame.blk else { unreachable!() };
                    let mut all = true;
                    for b in bs.iter_mut() {
                        if !b.finished {
                            if b.seq.run(g, outs, spawned) {
                                b.finished = true;
                            } else {
                                all = false;
                            }
                        }
                    }
                    if all {
                        frame.blk = None;
                        frame.pc += 1;
                        g.progress = true;
                    } else {
                        return false;
                    }
                }
                Stmt::SelectFirst(ts) => {
                    if ts.is_empty() {
                        frame.pc += 1;
                        continue;
                    }
                    if frame.blk.is_none() {
                        let bs = ts
                            .iter()
                            .map(|t| Branch { seq: Seq::branch(t, self.acc, self.legacy, &self.slots), finished: false })
                            .collect();
                        frame.blk = Some(Blk::Select(bs));
                    }
                    let Some(Blk::Select(bs)) = &mut frame.blk else { unreachable!() };
                    // which branches wait on something inside the program (a self-wake, another task
                    // finishing, a channel) rather than on the shell
                    let internal: Vec<bool> = bs
                        .iter()
                        .map(|b| {
                            let mut any = false;
                            b.seq.visit_waits(g, false, &mut |w| any |= matches!(w.kind, WaitKind::SelfWake | WaitKind::Join | WaitKind::Chan));
                            any
                        })
                        .collect();
                    let mut winner = None;
                    for (i, b) in bs.iter_mut().enumerate() {
                        if b.seq.run(g, outs, spawned) {
                            winner = Some(i);
                            break;
                        }
                    }
                    if let Some(i) = winner {
                        if internal[i] && internal.iter().enumerate().any(|(j, x)| j != i && *x) {
                            // two branches race on events inside the program: which comes first depends
                            // on the order in which the executor happens to poll the tasks involved
                            g.ambiguous = Some("select decided between branches woken from inside the program".into());
                        }
                    }
                    match winner {
                        Some(i) => {
                            self.acc = bs[i].seq.acc;
                            let mut losers = std::mem::take(bs);
                            for (j, b) in losers.iter_mut().enumerate() {
                                if j != i {
                                    b.seq.release(g);
                                }
                            }
                            frame.blk = None;
                            frame.pc += 1;
                            g.progress = true;
                        }
                        None => return false,
                    }
                }
                Stmt::Fault => {
                    // crashes of app code are not modelled: such runs are judged without the reference
                    g.ambiguous = Some("task fault".into());
                    self.frames.clear();
                    continue;
                }
                Stmt::Yield(n) => {
                    let left = match &frame.blk {
                        Some(Blk::Yield(k)) => *k,
                        _ => n,
                    };
                    if frame.blk.is_some() {
                        g.internal_resumes.insert(g.cur_owner);
                        g.check_abort_vs_internal_resume();
                    }
                    if left == 0 {
                        frame.blk = None;
                        frame.pc += 1;
                    } else {
                        // returns Pending after waking itself: other branches of an enclosing
                        // join/select are polled in this round, the task runs again in this settle
                        frame.blk = Some(Blk::Yield(left - 1));
                        g.progress = true;
                        return false;
                    }
                }
                Stmt::AwaitChain { first, stages } => {
                    if frame.blk.is_none() {
                        frame.blk = Some(Blk::Chain(build_up(&first, false, self.acc, &stages)));
                    }
                    let Some(Blk::Chain(up)) = &mut frame.blk else { unreachable!() };
                    let mut last = None;
                    let fin = loop {
                        match up.poll(g, outs) {
                            PollR::Item(v) => last = Some(v),
                            PollR::Pending => break false,
                            PollR::End => break true,
                        }
                    };
                    if let Some(v) = last {
                        self.acc = v;
                    }
                    // request-mode chain: finished as soon as its single item arrived
                    let req_mode = !stages.iter().any(|s| matches!(s, Stage::ThenStream(_)));
                    if fin || (req_mode && last.is_some()) {
                        frame.blk = None;
                        frame.pc += 1;
                        g.progress = true;
                    } else {
                        return false;
                    }
                }
                Stmt::HoldToken => {
                    self.tokens += 1;
                    g.tokens += 1;
                    frame.pc += 1;
                }
                Stmt::SpawnChan { c, child_sends, task, slot } => {
                    let inst = g.uid();
                    g.chans.insert(inst, Chan { queue: VecDeque::new(), tx_alive: true, rx_alive: true, woke: false });
                    let uid = g.uid();
                    g.spawned_by.insert(uid, g.cur_owner);
                    g.spawned_this_settle.insert(uid);
                    g.fresh_in_poll.insert(uid);
                    g.live_tasks.insert(uid);
                    if let Some(sl) = slot {
                        self.slots.insert(sl, uid);
                    }
                    let mut child = Seq::new(&task, self.acc, self.legacy);
                    // an end stored under the same name replaces (drops) the previous one
                    if child_sends {
                        if let Some(old) = self.rx.insert(c, inst) {
                            if let Some(ch) = g.chans.get_mut(&old) {
                                ch.rx_alive = false;
                                ch.queue.clear();
                            }
                        }
                        child.tx.insert(c, inst);
                    } else {
                        if let Some(old) = self.tx.insert(c, inst) {
                            if let Some(ch) = g.chans.get_mut(&old) {
                                if ch.tx_alive {
                                    ch.tx_alive = false;
                                    ch.woke = true;
                                }
                            }
                        }
                        child.rx.insert(c, inst);
                    }
                    spawned.push(TaskSt { uid, seq: child, polled: false });
                    frame.pc += 1;
                    g.progress = true;
                }
                Stmt::ChanSend(c) => {
                    if let Some(ch) = self.tx.get(&c).and_then(|i| g.chans.get_mut(i)) {
                        if ch.rx_alive {
                            ch.queue.push_back(self.acc);
                            ch.woke = true;
                        }
                    }
                    frame.pc += 1;
                    g.progress = true;
                }
                Stmt::ChanRecv(c) => match self.rx.get(&c).copied() {
                    None => frame.pc += 1,
                    Some(inst) => {
                        let ch = g.chans.get_mut(&inst).expect("channel instance");
                        let resumed = frame.blk.is_some();
                        if let Some(v) = ch.queue.pop_front() {
                            self.acc = v;
                            frame.blk = None;
                            frame.pc += 1;
                            g.progress = true;
                            if resumed {
                                g.internal_resumes.insert(g.cur_owner);
                                g.check_abort_vs_internal_resume();
                            }
                        } else if !ch.tx_alive {
                            self.acc = super::ast::chan_closed(self.acc);
                            frame.blk = None;
                            frame.pc += 1;
                            g.progress = true;
                            if resumed {
                                g.internal_resumes.insert(g.cur_owner);
                                g.check_abort_vs_internal_resume();
                            }
                        } else {
                            frame.blk = Some(Blk::Recv(inst));
                            return false;
                        }
                    }
                },
                Stmt::AbortCmd(h) => {
                    // takes effect when the aborted command is next polled; this task runs on to its
                    // next await point, and everything already emitted is still delivered
                    if let Some(uid) = g.handle_owner.get(&h).copied() {
                        if g.aborted_cmds.insert(uid) {
                            g.cmds_aborted_this_settle.insert(uid);
                            g.pending_task_aborts.push(uid);
                            g.task_aborters.insert(g.cur_owner);
                            g.task_aborts.push((g.cur_owner, uid));
                            g.check_abort_vs_internal_resume();
                        }
                    }
                    frame.pc += 1;
                    g.progress = true;
                }
            }
        }
    }

    fn visit_waits(&self, g: &Globals, under: bool, f: &mut dyn FnMut(Wait)) {
        let mut under = under;
        let top = self.frames.len().saturating_sub(1);
        for (i, fr) in self.frames.iter().enumerate() {
            let is_top = i == top;
            match &fr.blk {
                None => {}
                Some(Blk::Req(k)) => f(Wait { kind: WaitKind::Req, key: *k, uid: 0, under_stream: under, polled: is_top }),
                Some(Blk::Loop { key, in_body, .. }) => {
                    f(Wait { kind: WaitKind::Stream, key: *key, uid: 0, under_stream: under, polled: !*in_body });
                    if *in_body && !g.is_dropped(*key) {
                        under = true;
                    }
                }
                Some(Blk::Join(uid)) => f(Wait { kind: WaitKind::Join, key: (0, 0), uid: *uid, under_stream: under, polled: is_top }),
                Some(Blk::Recv(inst)) => f(Wait { kind: WaitKind::Chan, key: (0, 0), uid: *inst, under_stream: under, polled: is_top }),
                Some(Blk::Yield(_)) => f(Wait { kind: WaitKind::SelfWake, key: (0, 0), uid: 0, under_stream: under, polled: true }),
                Some(Blk::JoinAll(bs) | Blk::Select(bs)) => {
                    for b in bs {
                        if !b.finished {
                            b.seq.visit_waits(g, under, f);
                        }
                    }
                }
                Some(Blk::Chain(up)) => up.visit_waits(g, under, true, f),
            }
        }
    }

    /// drop this computation: every receiving end it holds goes away, tokens are released
    fn release(&mut self, g: &mut Globals) {
        let mut keys = vec![];
        self.visit_all_keys(&mut keys);
        for k in keys {
            g.close_rx(k);
        }
        self.release_tokens(g);
        self.drop_all_chan_ends(g);
    }

    fn drop_all_chan_ends(&mut self, g: &mut Globals) {
        self.drop_chan_ends(g);
        for fr in &mut self.frames {
            if let Some(Blk::JoinAll(bs) | Blk::Select(bs)) = &mut fr.blk {
                for b in bs {
                    b.seq.drop_all_chan_ends(g);
                }
            }
        }
    }

    /// the task's future is gone: so are the channel ends it held
    fn drop_chan_ends(&mut self, g: &mut Globals) {
        for inst in std::mem::take(&mut self.tx).values() {
            if let Some(c) = g.chans.get_mut(inst) {
                if c.tx_alive {
                    c.tx_alive = false;
                    c.woke = true;
                    g.progress = true;
                }
            }
        }
        for inst in std::mem::take(&mut self.rx).values() {
            if let Some(c) = g.chans.get_mut(inst) {
                c.rx_alive = false;
                c.queue.clear();
            }
        }
    }

    fn release_tokens(&mut self, g: &mut Globals) {
        g.tokens -= self.tokens;
        self.tokens = 0;
        for fr in &mut self.frames {
            if let Some(Blk::JoinAll(bs) | Blk::Select(bs)) = &mut fr.blk {
                for b in bs {
                    b.seq.release_tokens(g);
                }
            }
        }
    }

    fn visit_all_keys(&self, out: &mut Vec<ReqKey>) {
        // conservative: uses a dummy globals-free walk
        for fr in &self.frames {
            match &fr.blk {
                None | Some(Blk::Join(_) | Blk::Yield(_) | Blk::Recv(_)) => {}
                Some(Blk::Req(k)) => out.push(*k),
                Some(Blk::Loop { key, .. }) => out.push(*key),
                Some(Blk::JoinAll(bs) | Blk::Select(bs)) => {
                    for b in bs {
                        b.seq.visit_all_keys(out);
                    }
                }
                Some(Blk::Chain(up)) => up_keys(up, out),
            }
        }
    }
}

fn up_keys(up: &Up, out: &mut Vec<ReqKey>) {
    match up {
        Up::ReqLeaf { key, .. } | Up::StreamLeaf { key, .. } => {
            if let Some(k) = key {
                out.push(*k);
            }
        }
        Up::Map { up, .. } => up_keys(up, out),
        Up::ThenReq { up, cur, .. } => {
            if let Some(k) = cur {
                out.push(*k);
            }
            up_keys(up, out);
        }
        Up::ThenStreamR { up, inner, .. } => {
            if let Some(k) = inner {
                out.push(*k);
            }
            up_keys(up, out);
        }
        Up::ThenStreamS { up, inners, .. } => {
            out.extend(inners.iter().copied());
            up_keys(up, out);
        }
    }
}

#[derive(Clone, Debug, PartialEq, Eq)]
pub struct TaskSt {
    uid: u64,
    seq: Seq,
    polled: bool,
}

enum TaskRun {
    Keep,
    Remove,
}

impl TaskSt {
    fn waits(&self, g: &Globals) -> Vec<Wait> {
        let mut v = vec![];
        self.seq.visit_waits(g, false, &mut |w| v.push(w));
        v
    }

    fn run(&mut self, g: &mut Globals, outs: &mut Vec<Out>, spawned: &mut Vec<TaskSt>, evict: bool) -> TaskRun {
        if g.aborted_tasks.contains(&self.uid) {
            let waits = self.waits(g);
            let fired = waits.iter().any(|w| wait_fired(g, w));
            if g.aborted_this_settle.contains(&self.uid) && self.polled && fired {
                g.ambiguous = Some("abort aimed at a runnable task".into());
            }
            let forced = !self.polled || (!waits.iter().any(|w| wait_live(g, w)) && !g.has_ghosts(self.uid));
            if forced || g.reap.contains(&self.uid) {
                self.seq.release(g);
                g.zombies_reaped += 1;
                g.progress = true;
                return TaskRun::Remove;
            }
            g.optional_zombies.insert(self.uid);
            return TaskRun::Keep;
        }
        self.polled = true;
        let before = g.progress;
        g.progress = false;
        g.cur_owner = self.uid;
        g.fresh_in_poll.clear();
        let fin = self.seq.run(g, outs, spawned);
        g.fresh_in_poll.clear();
        if g.progress {
            g.ran_this_settle.insert(self.uid);
            let stack = g.cmd_stack.clone();
            g.ran_under.push((self.uid, stack));
        }
        g.progress |= before;
        if fin {
            g.progress = true;
            return TaskRun::Remove;
        }
        if evict {
            let waits = self.waits(g);
            let can_wake = waits.iter().any(|w| {
                w.polled
                    && match w.kind {
                        WaitKind::Req | WaitKind::Stream => !g.is_dropped(w.key),
                        WaitKind::Join => g.live_tasks.contains(&w.uid),
                        WaitKind::SelfWake => true,
                        WaitKind::Chan => true,
                    }
            });
            if !can_wake {
                // stuck for good: is anything it holds still alive? then the property allows either answer
                let holds_live = waits.iter().any(|w| !w.polled && matches!(w.kind, WaitKind::Stream) && !g.is_dropped(w.key));
                if holds_live {
                    g.ambiguous = Some("task permanently stuck while holding a live stream".into());
                }
                if g.has_ghosts(self.uid) && !g.reap.contains(&self.uid) {
                    g.optional_zombies.insert(self.uid);
                    return TaskRun::Keep;
                }
                self.seq.release(g);
                g.evictions += 1;
                g.progress = true;
                return TaskRun::Remove;
            }
        }
        TaskRun::Keep
    }
}

// ------------------------------------------------------------------------------------------------
// commands

#[derive(Clone, Debug, PartialEq, Eq)]
enum Node {
    Done,
    Emit1(Option<Out>),
    Chain { up: Up, label: u32, start: u64, seq: u32, tag: u32, cont: Option<Box<Cmd>>, req_mode: bool },
    Then { a: Option<Box<CmdSt>>, b: Box<CmdSt> },
    Par(Vec<CmdSt>),
    MapEffect(u8, Box<CmdSt>),
    MapEvent(u8, Box<CmdSt>),
    Wrap(Box<CmdSt>),
    Async(Vec<TaskSt>),
}

#[derive(Clone, Debug, PartialEq, Eq)]
pub struct CmdSt {
    uid: u64,
    handles: Vec<u32>,
    polled: bool,
    finished: bool,
    node: Node,
    /// left operand of `a.and(b)`: its tasks are tasks of the combined command itself (they share its
    /// abort flag and its executor round), not of a hosted command of their own
    inline_of: Option<u64>,
}

impl CmdSt {
    pub fn new(cmd: &Cmd, init: u64, g: &mut Globals) -> CmdSt {
        let uid = g.uid();
        let mut handles = vec![];
        let mut c = cmd;
        while let Cmd::Abortable(h, inner) = c {
            handles.push(*h);
            c = inner;
        }
        let pending_handles = handles.clone();
        let node = match c {
            Cmd::Done => Node::Done,
            Cmd::Event { tag, label } => Node::Emit1(Some(Out::Event(EvDesc {
                tag: *tag,
                val: init,
                trace: vec![],
                em_label: *label,
                em_start: init,
                seq: 0,
                cont: None,
            }))),
            Cmd::Notify(leaf) => Node::Emit1(Some(Out::Effect(EffectDesc {
                site: leaf.site,
                arg: init,
                op: leaf.op.into(),
                arity: Arity::Never,
                trace: vec![],
            }))),
            Cmd::Render => Node::Emit1(Some(Out::Effect(EffectDesc {
                site: RENDER_SITE,
                arg: 0,
                op: OpName::Render,
                arity: Arity::Never,
                trace: vec![],
            }))),
            Cmd::Chain(Chain { label, first, stream, stages, tag, cont }) => Node::Chain {
                up: build_up(first, *stream, init, stages),
                label: *label,
                start: init,
                seq: 0,
                tag: *tag,
                cont: cont.clone(),
                req_mode: !*stream && !stages.iter().any(|s| matches!(s, Stage::ThenStream(_))),
            },
            Cmd::Then(a, b) => {
                // both halves are built eagerly, the second is only started when the first has finished
                let a = CmdSt::new(a, init, g);
                let b = CmdSt::new(b, init, g);
                Node::Then { a: Some(Box::new(a)), b: Box::new(b) }
            }
            Cmd::And(a, b) => {
                let mut left = CmdSt::new(a, init, g);
                left.inline_of = Some(uid);
                g.inline_parent.insert(left.uid, uid);
                // `a.and(b)` extends `a` itself: a handle taken on `a` beforehand aborts the whole
                let luid = left.uid;
                for o in g.handle_owner.values_mut() {
                    if *o == luid {
                        *o = uid;
                    }
                }
                Node::Par(vec![left, CmdSt::new(b, init, g)])
            }
            Cmd::All(xs) => Node::Par(xs.iter().map(|x| CmdSt::new(x, init, g)).collect()),
            Cmd::MapEffect(k, x) => Node::MapEffect(*k, Box::new(CmdSt::new(x, init, g))),
            Cmd::MapEvent(k, x) => Node::MapEvent(*k, Box::new(CmdSt::new(x, init, g))),
            Cmd::IntoFrom(x) => Node::Wrap(Box::new(CmdSt::new(x, init, g))),
            Cmd::Async(t) => {
                let tuid = g.uid();
                g.live_tasks.insert(tuid);
                Node::Async(vec![TaskSt { uid: tuid, seq: Seq::new(t, init, false), polled: false }])
            }
            Cmd::Legacy(t) => {
                // the old API spawns onto the core's executor while `update` runs (build time)
                if g.legacy_supported {
                    let tuid = g.uid();
                    g.live_tasks.insert(tuid);
                    g.legacy_spawn.push(TaskSt { uid: tuid, seq: Seq::new(t, init, true), polled: false });
                }
                Node::Done
            }
            Cmd::Abortable(..) => unreachable!(),
        };
        // the handle is taken (and stored by the app) once the command has been built
        for h in pending_handles {
            g.handle_owner.insert(h, uid);
        }
        CmdSt { uid, handles, polled: false, finished: false, node, inline_of: None }
    }

    pub fn is_finished(&self) -> bool {
        self.finished
    }

    fn visit_waits(&self, g: &Globals, f: &mut dyn FnMut(Wait)) {
        if self.finished {
            return;
        }
        match &self.node {
            Node::Done | Node::Emit1(_) => {}
            Node::Chain { up, .. } => up.visit_waits(g, false, true, f),
            Node::Then { a, b } => {
                if let Some(a) = a {
                    a.visit_waits(g, f);
                }
                b.visit_waits(g, f);
            }
            Node::Par(xs) => xs.iter().for_each(|x| x.visit_waits(g, f)),
            Node::MapEffect(_, x) | Node::MapEvent(_, x) | Node::Wrap(x) => x.visit_waits(g, f),
            Node::Async(ts) => ts.iter().for_each(|t| t.seq.visit_waits(g, false, f)),
        }
    }

    /// the (sub)command with this uid, if it is this one or nested inside it
    pub fn find(&self, uid: u64) -> Option<&CmdSt> {
        if self.uid == uid {
            return Some(self);
        }
        match &self.node {
            Node::Done | Node::Emit1(_) | Node::Chain { .. } | Node::Async(_) => None,
            Node::Then { a, b } => a.as_ref().and_then(|a| a.find(uid)).or_else(|| b.find(uid)),
            Node::Par(xs) => xs.iter().find_map(|x| x.find(uid)),
            Node::MapEffect(_, x) | Node::MapEvent(_, x) | Node::Wrap(x) => x.find(uid),
        }
    }

    fn owner_uids(&self, out: &mut Vec<u64>) {
        match &self.node {
            Node::Done | Node::Emit1(_) => {}
            Node::Chain { .. } => out.push(self.uid),
            Node::Then { a, b } => {
                if let Some(a) = a {
                    a.owner_uids(out);
                }
                b.owner_uids(out);
            }
            Node::Par(xs) => xs.iter().for_each(|x| x.owner_uids(out)),
            Node::MapEffect(_, x) | Node::MapEvent(_, x) | Node::Wrap(x) => x.owner_uids(out),
            Node::Async(ts) => out.extend(ts.iter().map(|t| t.uid)),
        }
    }

    fn release(&mut self, g: &mut Globals) {
        match &mut self.node {
            Node::Done | Node::Emit1(_) => {}
            Node::Chain { up, .. } => {
                let mut keys = vec![];
                up_keys(up, &mut keys);
                keys.into_iter().for_each(|k| g.close_rx(k));
            }
            Node::Then { a, b } => {
                if let Some(a) = a {
                    a.release(g);
                }
                b.release(g);
            }
            Node::Par(xs) => xs.iter_mut().for_each(|x| x.release(g)),
            Node::MapEffect(_, x) | Node::MapEvent(_, x) | Node::Wrap(x) => x.release(g),
            Node::Async(ts) => {
                for t in ts.iter_mut() {
                    t.seq.release(g);
                    g.live_tasks.remove(&t.uid);
                }
                ts.clear();
            }
        }
        self.finished = true;
    }

    /// `always_polled`: the holder polls this command on every settle (a directly inspected command)
    pub fn run(&mut self, g: &mut Globals, outs: &mut Vec<Out>, always_polled: bool) -> bool {
        if self.finished {
            return true;
        }
        let leaf = matches!(self.node, Node::Chain { .. } | Node::Emit1(_));
        let before = g.progress;
        if leaf {
            g.progress = false;
        }
        g.cmd_stack.push(self.uid);
        let r = self.run_inner(g, outs, always_polled);
        if leaf {
            if g.progress {
                let stack = g.cmd_stack.clone();
                g.ran_under.push((self.uid, stack));
            }
            g.progress |= before;
        }
        g.cmd_stack.pop();
        r
    }

    fn run_inner(&mut self, g: &mut Globals, outs: &mut Vec<Out>, always_polled: bool) -> bool {
        if self.finished {
            return true;
        }
        if g.aborted_cmds.contains(&self.uid) {
            return self.run_aborted(g, always_polled);
        }
        let outs_before = outs.len();
        self.polled = true;
        let my_uid = self.uid;
        let inline_of = self.inline_of;
        let fin = match &mut self.node {
            Node::Done => true,
            Node::Emit1(o) => {
                if let Some(o) = o.take() {
                    if let Out::Effect(e) = &o {
                        if e.site != RENDER_SITE {
                            // notification: register so that a (wrong) resolve can be judged
                            let mut sink = vec![];
                            let op = match e.op {
                                OpName::A => OpKind::A,
                                _ => OpKind::B,
                            };
                            g.emit_req((e.site, e.arg), op, Arity::Never, &mut sink, false);
                        }
                    }
                    outs.push(o);
                    g.progress = true;
                }
                true
            }
            Node::Chain { up, label, start, seq, tag, cont, req_mode } => {
                g.cur_owner = self.uid;
                let mut got = false;
                let fin = loop {
                    match up.poll(g, outs) {
                        PollR::Item(v) => {
                            outs.push(Out::Event(EvDesc {
                                tag: *tag,
                                val: v,
                                trace: vec![],
                                em_label: *label,
                                em_start: *start,
                                seq: *seq,
                                cont: cont.clone(),
                            }));
                            *seq += 1;
                            got = true;
                            g.progress = true;
                            if *req_mode {
                                break true;
                            }
                        }
                        PollR::Pending => break false,
                        PollR::End => break true,
                    }
                };
                let _ = got;
                if fin {
                    true
                } else {
                    // eviction: a chain that can never be woken again is discarded
                    let mut can_wake = false;
                    let mut holds_live = false;
                    up.visit_waits(g, false, true, &mut |w| {
                        let alive = !g.is_dropped(w.key);
                        if w.polled && alive {
                            can_wake = true;
                        }
                        if !w.polled && alive && matches!(w.kind, WaitKind::Stream) {
                            holds_live = true;
                        }
                    });
                    if can_wake {
                        false
                    } else {
                        if holds_live {
                            g.ambiguous = Some("chain permanently stuck while holding a live stream".into());
                        }
                        if up.polls_flatten_unordered(true) {
                            if g.keep_sticky {
                                // the known divergence, followed faithfully: the chain keeps a clone
                                // of its own waker and stays for as long as its command does
                                g.sticky_kept = true;
                                return false;
                            }
                            g.sticky = Some("then_stream".into());
                        }
                        let mut keys = vec![];
                        up_keys(up, &mut keys);
                        keys.into_iter().for_each(|k| g.close_rx(k));
                        g.evictions += 1;
                        g.progress = true;
                        true
                    }
                }
            }
            Node::Then { a, b } => {
                let mut a_done = true;
                if let Some(ac) = a {
                    if ac.run(g, outs, false) {
                        *a = None;
                        g.progress = true;
                    } else {
                        a_done = false;
                    }
                }
                if a_done {
                    b.run(g, outs, false)
                } else {
                    false
                }
            }
            Node::Par(xs) => {
                // the parts are tasks of this command: its executor runs them until none of them is
                // ready any more before the command's own host gets control back
                let outer = g.progress;
                let mut all;
                let mut any = false;
                loop {
                    g.progress = false;
                    all = true;
                    let mut cut = false;
                    for x in xs.iter_mut() {
                        if !x.run(g, outs, false) {
                            all = false;
                        }
                        if g.aborted_here_or_inline(my_uid) {
                            // aborted from inside: no other task of this command is polled again
                            // (the parts are hosted by tasks of this command)
                            all = false;
                            cut = true;
                            break;
                        }
                    }
                    if cut {
                        any = true;
                        break;
                    }
                    if !g.progress || g.ambiguous.is_some() {
                        break;
                    }
                    any = true;
                    if g.aborted_here_or_inline(my_uid) {
                        break;
                    }
                    if inline_of.is_some() {
                        // these tasks take turns with the other tasks of the combined command
                        break;
                    }
                    g.local_rounds += 1;
                    if g.local_rounds > 100_000 {
                        g.ambiguous = Some("model did not reach a local fixpoint".into());
                        break;
                    }
                }
                g.progress |= outer || any;
                all
            }
            Node::MapEffect(k, x) => {
                let mut inner = vec![];
                let fin = x.run(g, &mut inner, false);
                for o in inner {
                    outs.push(match o {
                        Out::Effect(mut e) => {
                            if e.op != OpName::Render && *k != super::ops::IDENTITY {
                                e.trace.push(*k);
                            }
                            Out::Effect(e)
                        }
                        ev => ev,
                    });
                }
                fin
            }
            Node::MapEvent(k, x) => {
                let mut inner = vec![];
                let fin = x.run(g, &mut inner, false);
                for o in inner {
                    outs.push(match o {
                        Out::Event(mut e) => {
                            if *k != super::ops::IDENTITY {
                                e.trace.push(*k);
                            }
                            Out::Event(e)
                        }
                        ef => ef,
                    });
                }
                fin
            }
            Node::Wrap(x) => x.run(g, outs, false),
            Node::Async(ts) => {
                // a self-waking task (and whatever it wakes in this command) is polled again before the
                // command hands control back: the command's executor drains its ready queue
                let outer = g.progress;
                let mut any = false;
                loop {
                    g.progress = false;
                    let mut i = 0;
                    let mut cut = false;
                    // tasks spawned during a round get their first poll in the next one: after the
                    // tasks that were already there (and, in a combined command, after its other parts)
                    let mut in_this_round = ts.len();
                    while in_this_round > 0 && i < ts.len() {
                        in_this_round -= 1;
                        let mut spawned = vec![];
                        let r = ts[i].run(g, outs, &mut spawned, true);
                        match r {
                            TaskRun::Remove => {
                                let t = ts.remove(i);
                                g.live_tasks.remove(&t.uid);
                            }
                            TaskRun::Keep => i += 1,
                        }
                        if !spawned.is_empty() {
                            g.progress = true;
                        }
                        ts.extend(spawned);
                        if g.aborted_here_or_inline(my_uid) {
                            // aborted by one of its own tasks: that task ran on to its next await point,
                            // no other task of the command is polled again (not even one just spawned)
                            cut = true;
                            break;
                        }
                    }
                    if cut {
                        any = true;
                        break;
                    }
                    if !g.progress || g.ambiguous.is_some() {
                        break;
                    }
                    any = true;
                    if g.aborted_here_or_inline(my_uid) {
                        break;
                    }
                    if inline_of.is_some() {
                        // these tasks take turns with the other tasks of the combined command
                        break;
                    }
                    g.local_rounds += 1;
                    if g.local_rounds > 100_000 {
                        g.ambiguous = Some("model did not reach a local fixpoint".into());
                        break;
                    }
                }
                g.progress |= outer || any;
                ts.is_empty()
            }
        };
        if fin {
            self.finished = true;
            return true;
        }
        if g.aborted_cmds.contains(&self.uid) {
            // aborted by one of its own tasks (or a task of a command nested in it) during this very
            // poll: "an aborted command reports done as soon as its already-emitted outputs have been
            // taken", and it does so wherever it is hosted - a directly held command says done in this
            // step, so a hosted one ends in this poll of its host too
            let _ = outs_before;
            g.immediate_reaps += 1;
            return self.run_aborted(g, true);
        }
        false
    }

    /// the command is polled while its abort flag is set; `certain`: the poll certainly happens now
    fn run_aborted(&mut self, g: &mut Globals, certain: bool) -> bool {
        if g.cmds_aborted_this_settle.contains(&self.uid) && self.polled {
            // aborted from inside a task while it was running: tasks of this command that are
            // runnable right now may or may not get one more poll, depending on queue order
            let mut fired = false;
            self.visit_waits(g, &mut |w| fired |= wait_fired(g, &w));
            if fired {
                g.ambiguous = Some("command aborted by a task while other tasks of it were runnable".into());
            }
        }
        let mut live = false;
        self.visit_waits(g, &mut |w| live |= wait_live(g, &w));
        if !live {
            let mut owners = vec![];
            self.owner_uids(&mut owners);
            live = owners.iter().any(|o| g.has_ghosts(*o));
        }
        // (a stuck chain kept by the implementation has nothing live and is still there: only a
        // poll discards it)
        let forced = !self.polled || certain || (!live && !g.keep_sticky);
        if forced || g.reap.contains(&self.uid) {
            self.release(g);
            g.zombies_reaped += 1;
            g.progress = true;
            return true;
        }
        g.optional_zombies.insert(self.uid);
        false
    }
}

// ------------------------------------------------------------------------------------------------
// the model

#[derive(Clone, Copy, Debug, PartialEq, Eq, Serialize, Deserialize)]
pub enum HostKind {
    /// commands inspected directly: polled on every settle, `is_done` observable
    Direct,
    /// commands hosted by a Core: polled only when woken
    Core,
}

#[derive(Clone, Debug, PartialEq, Eq, PartialOrd, Ord, Serialize, Deserialize)]
pub enum RootId {
    Run(u32),
    Cont { em_label: u32, em_start: u64, seq: u32 },
}

#[derive(Clone, Debug, PartialEq, Eq)]
pub struct Root {
    pub id: RootId,
    pub cmd: CmdSt,
}

#[derive(Clone, Debug, PartialEq, Eq)]
pub struct Model {
    pub kind: HostKind,
    pub g: Globals,
    pub roots: Vec<Root>,
    pub runs: u32,
    /// the core was dropped
    pub dead: bool,
    pub legacy: Vec<TaskSt>,
    pub log: Vec<LogEntry>,
    pending_new_log: Vec<LogEntry>,
}

#[derive(Clone, Debug)]
pub struct Outstanding {
    pub key: ReqKey,
    pub arity: Arity,
    pub op: OpName,
    /// one-shot already resolved (a further resolve is a duplicate)
    pub resolved: bool,
    /// dropping it creates no state in which the property allows two answers
    pub droppable: bool,
    pub rx_alive: bool,
}

impl Model {
    pub fn new(kind: HostKind) -> Model {
        Model {
            kind,
            g: Globals {
                reqs: BTreeMap::new(),
                handle_owner: BTreeMap::new(),
                aborted_cmds: BTreeSet::new(),
                cmds_aborted_this_settle: BTreeSet::new(),
                pending_task_aborts: vec![],
                internal_resumes: BTreeSet::new(),
                task_aborters: BTreeSet::new(),
                cmd_stack: vec![],
                ran_under: vec![],
                task_aborts: vec![],
                spawned_by: BTreeMap::new(),
                spawned_this_settle: BTreeSet::new(),
                fresh_in_poll: BTreeSet::new(),
                local_rounds: 0,
                inline_parent: BTreeMap::new(),
                chans: BTreeMap::new(),
                sticky: None,
                keep_sticky: false,
                sticky_kept: false,
                cur_owner: 0,
                aborted_tasks: BTreeSet::new(),
                aborted_this_settle: BTreeSet::new(),
                ran_this_settle: BTreeSet::new(),
                live_tasks: BTreeSet::new(),
                next_uid: 0,
                tokens: 0,
                ambiguous: None,
                reap: BTreeSet::new(),
                optional_zombies: BTreeSet::new(),
                progress: false,
                legacy_spawn: vec![],
                legacy_supported: false,
                legacy_drops: false,
                evictions: 0,
                zombies_reaped: 0,
                immediate_reaps: 0,
            },
            roots: vec![],
            runs: 0,
            dead: false,
            legacy: vec![],
            log: vec![],
            pending_new_log: vec![],
        }
    }

    /// the shell (or the harness) delivers an event: `update` runs at once
    pub fn send_event(&mut self, ev: &Event) {
        if self.dead {
            return;
        }
        match ev {
            Event::Run(cmd) => {
                self.push_log(LogEntry::Run);
                let c = CmdSt::new(cmd, 0, &mut self.g);
                self.roots.push(Root { id: RootId::Run(self.runs), cmd: c });
                self.runs += 1;
            }
            Event::Abort(h) => {
                self.push_log(LogEntry::Abort(*h));
                if let Some(uid) = self.g.handle_owner.get(h) {
                    self.g.aborted_cmds.insert(*uid);
                }
            }
            Event::Noop => self.push_log(LogEntry::Noop),
            Event::Emitted(_) => unreachable!("shells do not send task events"),
        }
    }

    fn push_log(&mut self, e: LogEntry) {
        self.log.push(e.clone());
        self.pending_new_log.push(e);
    }

    pub fn resolve(&mut self, key: ReqKey, v: u64) -> Outcome {
        let Some(r) = self.g.reqs.get_mut(&key) else { return Outcome::Unknown };
        if r.dropped {
            return Outcome::Unknown;
        }
        match r.arity {
            Arity::Never => {
                // (answered all the same: the bridge may forget the entry now)
                r.resolved = true;
                Outcome::Rejected
            }
            Arity::Once => {
                if r.resolved {
                    Outcome::Rejected
                } else {
                    r.resolved = true;
                    if r.rx_alive {
                        r.queue.push_back(v);
                        r.woke = true;
                    }
                    Outcome::Accepted
                }
            }
            Arity::Many => {
                if r.rx_alive {
                    r.queue.push_back(v);
                    r.woke = true;
                    Outcome::Accepted
                } else {
                    Outcome::Rejected
                }
            }
        }
    }

    /// the shell drops the request value unresolved (for a stream: ends the subscription)
    pub fn drop_req(&mut self, key: ReqKey) {
        if let Some(r) = self.g.reqs.get_mut(&key) {
            r.dropped = true;
            r.woke = true;
        }
    }

    pub fn outstanding(&self) -> Vec<Outstanding> {
        let mut undroppable = BTreeSet::new();
        // streams whose consumer is inside its loop body (waiting on something else) right now
        let mut busy_streams = BTreeSet::new();
        let mut f = |w: Wait| {
            if w.under_stream && matches!(w.kind, WaitKind::Req) {
                undroppable.insert(w.key);
            }
            if matches!(w.kind, WaitKind::Stream) && !w.polled {
                busy_streams.insert(w.key);
            }
        };
        for r in &self.roots {
            r.cmd.visit_waits(&self.g, &mut f);
        }
        for t in &self.legacy {
            t.seq.visit_waits(&self.g, false, &mut f);
        }
        self.g
            .reqs
            .iter()
            .filter(|(_, r)| !r.dropped)
            .map(|(k, r)| Outstanding {
                key: *k,
                arity: r.arity,
                op: r.op,
                resolved: r.resolved,
                // a dropped request of the old capability API is not noticed by its task (no wake):
                // the shell of these runs never drops one its task is waiting on (S10 is judged by C13
                // only). A stream of the old API whose consumer is busy elsewhere can be dropped: the
                // consumer comes back on its own, must still get every item that was accepted before
                // the drop, and then sees the end of the stream.
                droppable: !undroppable.contains(k)
                    && (!r.legacy || (self.g.legacy_drops && r.arity == Arity::Once) || (r.arity == Arity::Many && busy_streams.contains(k))),
                rx_alive: r.rx_alive,
            })
            .collect()
    }

    /// handles an app could currently abort: registered and not yet used
    pub fn abortable_handles(&self) -> Vec<u32> {
        self.g.handle_owner.iter().filter(|(_, uid)| !self.g.aborted_cmds.contains(uid)).map(|(h, _)| *h).collect()
    }

    /// zombies whose reaping time the properties leave open, as of the last settle
    pub fn optional_zombies(&self) -> Vec<u64> {
        self.g.optional_zombies.iter().copied().collect()
    }

    pub fn settle(&mut self, reap: &BTreeSet<u64>) -> StepOut {
        let g = &mut self.g;
        g.reap = reap.clone();
        g.optional_zombies.clear();
        g.ran_this_settle.clear();
        g.internal_resumes.clear();
        g.task_aborters.clear();
        g.ran_under.clear();
        g.task_aborts.clear();
        g.spawned_this_settle.clear();
        g.cmd_stack.clear();
        g.local_rounds = 0;
        let mut effects = vec![];
        let mut new_log = std::mem::take(&mut self.pending_new_log);
        let always = self.kind == HostKind::Direct;
        let mut guard = 0;
        let mut queued: VecDeque<EvDesc> = VecDeque::new();
        loop {
            guard += 1;
            if guard > 10_000 {
                self.g.ambiguous = Some("model did not reach a fixpoint".into());
                break;
            }
            let g = &mut self.g;
            g.progress = false;
            // (not cleared between rounds: a choice that was open in an earlier round of this settle must be
            // offered to the driver even if the work it concerns is gone by the end)
            let mut outs = vec![];
            for r in self.roots.iter_mut() {
                r.cmd.run(g, &mut outs, always);
            }
            self.legacy.append(&mut g.legacy_spawn);
            let mut i = 0;
            while i < self.legacy.len() {
                let mut spawned = vec![];
                let evict = g.legacy_drops;
                match self.legacy[i].run(g, &mut outs, &mut spawned, evict) {
                    TaskRun::Remove => {
                        let t = self.legacy.remove(i);
                        g.live_tasks.remove(&t.uid);
                    }
                    TaskRun::Keep => i += 1,
                }
                self.legacy.append(&mut g.legacy_spawn);
            }
            if self.kind == HostKind::Core {
                // a finished command is gone from its host
                self.roots.retain(|r| !r.cmd.finished);
            }
            for o in outs {
                match o {
                    Out::Effect(e) | Out::CapEffect(e) => effects.push(e),
                    Out::Event(ev) => queued.push_back(ev),
                }
            }
            if !self.g.pending_task_aborts.is_empty() {
                // aborting a command and one nested inside it in the same round: which is noticed
                // first decides whether an enclosing `then` still starts its next part
                let pend = std::mem::take(&mut self.g.pending_task_aborts);
                let all: Vec<u64> = self.g.cmds_aborted_this_settle.iter().copied().collect();
                for a in &pend {
                    for b in &all {
                        if a != b
                            && self.roots.iter().any(|r| {
                                r.cmd.find(*a).is_some_and(|c| c.find(*b).is_some()) || r.cmd.find(*b).is_some_and(|c| c.find(*a).is_some())
                            })
                        {
                            self.g.ambiguous = Some("nested commands aborted by tasks in the same round".into());
                        }
                    }
                }
            }
            if self.g.progress {
                // tasks run to quiescence before any emitted event is applied
                continue;
            }
            if queued.is_empty() {
                break;
            }
            // a core applies one event, runs what its update returned to quiescence, then the next;
            // a holder of bare commands collects all events of a round first
            let n = if self.kind == HostKind::Core { 1 } else { queued.len() };
            for _ in 0..n {
                let Some(ev) = queued.pop_front() else { break };
                let entry = LogEntry::Em {
                    em_label: ev.em_label,
                    em_start: ev.em_start,
                    seq: ev.seq,
                    tag: ev.tag,
                    val: ev.val,
                    trace: ev.trace.clone(),
                };
                self.log.push(entry.clone());
                new_log.push(entry);
                if let Some(c) = &ev.cont {
                    let st = CmdSt::new(c, ev.val, &mut self.g);
                    let id = RootId::Cont { em_label: ev.em_label, em_start: ev.em_start, seq: ev.seq };
                    self.roots.push(Root { id, cmd: st });
                }
            }
        }
        for r in self.g.reqs.values_mut() {
            r.woke = false;
        }
        for c in self.g.chans.values_mut() {
            c.woke = false;
        }
        // channels nobody holds any more are forgotten
        self.g.chans.retain(|_, c| c.tx_alive || c.rx_alive);
        if self.g.ambiguous.is_none() {
            self.g.check_abort_vs_siblings();
        }
        self.g.aborted_this_settle.clear();
        self.g.cmds_aborted_this_settle.clear();
        self.g.reap.clear();
        effects.sort();
        StepOut { effects, log: new_log }
    }

    /// per-root done flags (Direct hosts)
    pub fn roots_done(&self) -> BTreeMap<RootId, bool> {
        self.roots.iter().map(|r| (r.id.clone(), r.cmd.finished)).collect()
    }

    pub fn all_done(&self) -> bool {
        self.roots.iter().all(|r| r.cmd.finished) && self.legacy.is_empty()
    }

    pub fn live_command_roots(&self) -> usize {
        self.roots.iter().filter(|r| !r.cmd.finished).count()
    }

    /// drop root `i` (Direct hosts: the holder drops the command value)
    pub fn drop_root(&mut self, id: &RootId) {
        if let Some(r) = self.roots.iter_mut().find(|r| &r.id == id) {
            if !r.cmd.finished {
                r.cmd.release(&mut self.g);
            }
        }
    }

    /// the whole core is dropped
    pub fn drop_all(&mut self) {
        self.dead = true;
        for r in self.roots.iter_mut() {
            if !r.cmd.finished {
                r.cmd.release(&mut self.g);
            }
        }
        for t in self.legacy.iter_mut() {
            t.seq.release(&mut self.g);
        }
        self.legacy.clear();
    }
}
