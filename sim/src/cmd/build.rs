//! Real build: AST -> `Command` using only the public crux_core API.

use std::collections::BTreeMap;
use std::future::Future;
use std::pin::Pin;
use std::sync::atomic::{AtomicU32, Ordering};
use std::sync::Arc;
use std::task::{Context, Poll};

use crux_core::command::{Command, CommandContext, RequestBuilder, StreamBuilder};
use futures::future::BoxFuture;
use futures::stream::BoxStream;
use futures::{FutureExt, StreamExt};

use super::ast::{mapf, Chain, Cmd, Leaf, OpKind, Stage, Stmt, Task};
use super::ops::{
    blob_for, decode_b, event_trace_push, Emitted, Event, EventAlt, LegacyCtx, OpA, OpB, SimEffect, Token,
};

/// abort handles the app keeps, shared with the tasks of its commands (a task may abort a command)
#[derive(Clone, Default)]
pub struct Handles {
    map: Arc<std::sync::Mutex<BTreeMap<u32, Arc<dyn Fn() + Send + Sync>>>>,
    /// capability contexts of the app's own core (set by every `update`): what a command task that
    /// "captured a capability clone" uses (`Stmt::CapRequest`)
    pub caps: Arc<std::sync::Mutex<Option<LegacyCtx>>>,
}

impl Handles {
    pub fn lock(&self) -> std::sync::LockResult<std::sync::MutexGuard<'_, BTreeMap<u32, Arc<dyn Fn() + Send + Sync>>>> {
        self.map.lock()
    }
}

type RB<Ef> = RequestBuilder<Ef, Event, BoxFuture<'static, u64>>;
type SB<Ef> = StreamBuilder<Ef, Event, BoxStream<'static, u64>>;

fn box_r<Ef: SimEffect, T>(b: RequestBuilder<Ef, Event, T>) -> RB<Ef>
where
    T: Future<Output = u64> + Send + 'static,
{
    RequestBuilder::new(move |ctx| b.into_future(ctx).boxed())
}

fn box_s<Ef: SimEffect, T>(b: StreamBuilder<Ef, Event, T>) -> SB<Ef>
where
    T: futures::Stream<Item = u64> + Send + 'static,
{
    StreamBuilder::new(move |ctx| b.into_stream(ctx).boxed())
}

fn op_a(leaf: &Leaf, arg: u64) -> OpA {
    OpA { site: leaf.site, arg, trace: vec![], tok: Default::default() }
}
fn op_b(leaf: &Leaf, arg: u64) -> OpB {
    OpB { site: leaf.site, arg, trace: vec![], blob: blob_for(leaf.site, arg), tok: Default::default() }
}

fn request_builder<Ef: SimEffect>(leaf: &Leaf, arg: u64) -> RB<Ef> {
    match leaf.op {
        OpKind::A => box_r(Command::request_from_shell(op_a(leaf, arg))),
        OpKind::B => box_r(Command::request_from_shell(op_b(leaf, arg)).map(decode_b)),
    }
}

fn stream_builder<Ef: SimEffect>(leaf: &Leaf, arg: u64) -> SB<Ef> {
    match leaf.op {
        OpKind::A => box_s(Command::stream_from_shell(op_a(leaf, arg))),
        OpKind::B => box_s(Command::stream_from_shell(op_b(leaf, arg)).map(decode_b)),
    }
}

enum Bld<Ef: SimEffect> {
    R(RB<Ef>),
    S(SB<Ef>),
}

fn apply_stages<Ef: SimEffect>(mut b: Bld<Ef>, stages: &[Stage]) -> Bld<Ef> {
    for st in stages {
        b = match (b, st.clone()) {
            (Bld::R(r), Stage::Map(k)) => Bld::R(box_r(r.map(move |v| mapf(k, v)))),
            (Bld::R(r), Stage::ThenRequest(l)) => {
                Bld::R(box_r(r.then_request(move |v| request_builder::<Ef>(&l, v))))
            }
            (Bld::R(r), Stage::ThenStream(l)) => {
                Bld::S(box_s(r.then_stream(move |v| stream_builder::<Ef>(&l, v))))
            }
            (Bld::S(s), Stage::Map(k)) => Bld::S(box_s(s.map(move |v| mapf(k, v)))),
            (Bld::S(s), Stage::ThenRequest(l)) => {
                Bld::S(box_s(s.then_request(move |v| request_builder::<Ef>(&l, v))))
            }
            (Bld::S(s), Stage::ThenStream(l)) => {
                Bld::S(box_s(s.then_stream(move |v| stream_builder::<Ef>(&l, v))))
            }
        };
    }
    b
}

fn build_chain<Ef: SimEffect>(c: &Chain, init: u64) -> Command<Ef, Event> {
    let b = if c.stream {
        Bld::S(stream_builder::<Ef>(&c.first, init))
    } else {
        Bld::R(request_builder::<Ef>(&c.first, init))
    };
    let b = apply_stages(b, &c.stages);
    let seq = Arc::new(AtomicU32::new(0));
    let (tag, label, cont) = (c.tag, c.label, c.cont.clone());
    let mk = move |v: u64| {
        Event::Emitted(Emitted {
            tag,
            val: v,
            trace: vec![],
            em_label: label,
            em_start: init,
            seq: seq.fetch_add(1, Ordering::SeqCst),
            cont: cont.clone(),
        })
    };
    match b {
        Bld::R(r) => r.then_send(mk),
        Bld::S(s) => s.then_send(mk),
    }
}

pub fn build<Ef: SimEffect>(cmd: &Cmd, init: u64, h: &Handles, legacy: Option<&LegacyCtx>) -> Command<Ef, Event> {
    match cmd {
        Cmd::Done => Command::done(),
        Cmd::Event { tag, label } => Command::event(Event::Emitted(Emitted {
            tag: *tag,
            val: init,
            trace: vec![],
            em_label: *label,
            em_start: init,
            seq: 0,
            cont: None,
        })),
        Cmd::Notify(leaf) => match leaf.op {
            OpKind::A => Command::notify_shell(op_a(leaf, init)).into(),
            OpKind::B => Command::notify_shell(op_b(leaf, init)).into(),
        },
        Cmd::Render => crux_core::render::render(),
        Cmd::Chain(c) => build_chain(c, init),
        Cmd::Then(a, b) => {
            let a = build(a, init, h, legacy);
            let b = build(b, init, h, legacy);
            a.then(b)
        }
        Cmd::And(a, b) => {
            let a = build(a, init, h, legacy);
            let b = build(b, init, h, legacy);
            a.and(b)
        }
        Cmd::All(xs) => {
            let cs: Vec<_> = xs.iter().map(|x| build(x, init, h, legacy)).collect();
            Command::all(cs)
        }
        Cmd::MapEffect(k, x) => {
            let k = *k;
            build::<Ef>(x, init, h, legacy).map_effect(move |mut e: Ef| {
                e.trace_push(k);
                e
            })
        }
        Cmd::MapEvent(k, x) => {
            let k = *k;
            build::<Ef>(x, init, h, legacy).map_event(move |e| event_trace_push(e, k))
        }
        Cmd::IntoFrom(x) => {
            let inner: Command<Ef::Alt, EventAlt> = build::<Ef>(x, init, h, legacy).into();
            Command::from(inner)
        }
        Cmd::Async(t) => {
            let t = t.clone();
            let hs = h.clone();
            Command::new(move |ctx| async move {
                tracked(interp_with::<Ef>(t, init, ctx, BTreeMap::new(), hs)).await;
            })
        }
        Cmd::Abortable(hid, x) => {
            let c = build::<Ef>(x, init, h, legacy);
            let handle = c.abort_handle();
            h.lock().unwrap().insert(*hid, Arc::new(move || handle.abort()));
            c
        }
        Cmd::Legacy(t) => {
            if let Some(l) = legacy {
                super::ops::legacy_run(l, t.clone(), init);
            }
            Command::done()
        }
    }
}

// ------------------------------------------------------------------------------------------------
// async task interpreter (command API)

// ------------------------------------------------------------------------------------------------
// order log: in which order the real tasks produced outputs and aborted commands (the reference model
// polls tasks in its own order, so "was this output before or after that abort" can only be read off
// the real execution)

#[derive(Clone, Debug, PartialEq, Eq)]
pub enum Order {
    /// a command was aborted through handle `h`; `by` = (task instance, poll number) when a task did it
    Abort { h: u32, by: Option<(u64, u64)> },
    /// the task instance `inst` was aborted through its join handle
    AbortTask { inst: u64 },
    /// the task (or join/select branch) labelled `label` produced an output
    Out { label: u32, at: (u64, u64), what: &'static str },
}

thread_local! {
    static ORDER_LOG: std::cell::RefCell<Vec<Order>> = const { std::cell::RefCell::new(Vec::new()) };
    static CUR_POLL: std::cell::Cell<(u64, u64)> = const { std::cell::Cell::new((0, 0)) };
    static NEXT_TASK: std::cell::Cell<u64> = const { std::cell::Cell::new(1) };
}

pub fn order_log_reset() {
    ORDER_LOG.with(|l| l.borrow_mut().clear());
    NEXT_TASK.with(|n| n.set(1));
    CUR_POLL.with(|c| c.set((0, 0)));
}

pub fn order_log_snapshot() -> Vec<Order> {
    ORDER_LOG.with(|l| l.borrow().clone())
}

pub fn log_abort(h: u32) {
    let at = CUR_POLL.with(std::cell::Cell::get);
    ORDER_LOG.with(|l| l.borrow_mut().push(Order::Abort { h, by: if at.0 == 0 { None } else { Some(at) } }));
}

fn log_out(label: u32, what: &'static str) {
    let at = CUR_POLL.with(std::cell::Cell::get);
    ORDER_LOG.with(|l| {
        let mut l = l.borrow_mut();
        if l.len() < 100_000 {
            l.push(Order::Out { label, at, what });
        }
    });
}

/// a task of a command: knows which task instance and which of its polls is running
struct Tracked {
    inner: BoxFuture<'static, u64>,
    id: u64,
    polls: u64,
}

fn new_task_instance() -> u64 {
    NEXT_TASK.with(|n| {
        let v = n.get();
        n.set(v + 1);
        v
    })
}

fn tracked(inner: BoxFuture<'static, u64>) -> Tracked {
    Tracked { inner, id: new_task_instance(), polls: 0 }
}

fn tracked_as(id: u64, inner: BoxFuture<'static, u64>) -> Tracked {
    Tracked { inner, id, polls: 0 }
}

fn log_task_abort(inst: u64) {
    ORDER_LOG.with(|l| l.borrow_mut().push(Order::AbortTask { inst }));
}

impl Future for Tracked {
    type Output = u64;
    fn poll(mut self: Pin<&mut Self>, cx: &mut Context<'_>) -> Poll<u64> {
        self.polls += 1;
        let prev = CUR_POLL.with(|c| c.replace((self.id, self.polls)));
        let r = self.inner.as_mut().poll(cx);
        CUR_POLL.with(|c| c.set(prev));
        r
    }
}

struct YieldOnce(bool);
impl Future for YieldOnce {
    type Output = ();
    fn poll(mut self: Pin<&mut Self>, cx: &mut Context<'_>) -> Poll<()> {
        if self.0 {
            Poll::Ready(())
        } else {
            self.0 = true;
            cx.waker().wake_by_ref();
            Poll::Pending
        }
    }
}

#[derive(Clone)]
struct Slot {
    /// task instance behind the handle (for the order log)
    inst: u64,
    abort: Arc<dyn Fn() + Send + Sync>,
    join: Arc<dyn Fn() -> BoxFuture<'static, ()> + Send + Sync>,
}

struct Env {
    acc: u64,
    em_label: u32,
    em_start: u64,
    seq: u32,
    slots: BTreeMap<u32, Slot>,
    tokens: Vec<Token>,
    handles: Handles,
    tx: BTreeMap<u32, async_channel::Sender<u64>>,
    rx: BTreeMap<u32, async_channel::Receiver<u64>>,
}

/// channel end handed to a spawned task
enum ChanEnd {
    Tx(u32, async_channel::Sender<u64>),
    Rx(u32, async_channel::Receiver<u64>),
}

/// `slots`: join handles inherited from the enclosing task (branches of a join / select may await them)
fn interp_with<Ef: SimEffect>(task: Task, init: u64, ctx: CommandContext<Ef, Event>, slots: BTreeMap<u32, Slot>, handles: Handles) -> BoxFuture<'static, u64> {
    interp_full::<Ef>(task, init, ctx, slots, handles, None)
}

fn interp_full<Ef: SimEffect>(
    task: Task,
    init: u64,
    ctx: CommandContext<Ef, Event>,
    slots: BTreeMap<u32, Slot>,
    handles: Handles,
    end: Option<ChanEnd>,
) -> BoxFuture<'static, u64> {
    async move {
        let mut env = Env {
            acc: init,
            em_label: task.label,
            em_start: init,
            seq: 0,
            slots,
            tokens: vec![],
            handles,
            tx: BTreeMap::new(),
            rx: BTreeMap::new(),
        };
        match end {
            Some(ChanEnd::Tx(c, t)) => {
                env.tx.insert(c, t);
            }
            Some(ChanEnd::Rx(c, r)) => {
                env.rx.insert(c, r);
            }
            None => {}
        }
        run_stmts::<Ef>(&task.stmts, &mut env, &ctx).await;
        env.acc
    }
    .boxed()
}

async fn shell_request<Ef: SimEffect>(leaf: &Leaf, arg: u64, ctx: &CommandContext<Ef, Event>) -> u64 {
    match leaf.op {
        OpKind::A => ctx.request_from_shell(op_a(leaf, arg)).await,
        OpKind::B => decode_b(ctx.request_from_shell(op_b(leaf, arg)).await),
    }
}

fn shell_stream<Ef: SimEffect>(leaf: &Leaf, arg: u64, ctx: &CommandContext<Ef, Event>) -> BoxStream<'static, u64> {
    match leaf.op {
        OpKind::A => ctx.stream_from_shell(op_a(leaf, arg)).boxed(),
        OpKind::B => ctx.stream_from_shell(op_b(leaf, arg)).map(decode_b).boxed(),
    }
}

fn run_stmts<'a, Ef: SimEffect>(
    stmts: &'a [Stmt],
    env: &'a mut Env,
    ctx: &'a CommandContext<Ef, Event>,
) -> BoxFuture<'a, ()> {
    async move {
        for s in stmts {
            match s {
                Stmt::Request(leaf) => {
                    log_out(env.em_label, "request");
                    env.acc = shell_request(leaf, env.acc, ctx).await;
                }
                Stmt::MakeAndDrop(leaf) => {
                    // a request future that is created and dropped without ever being polled
                    match leaf.op {
                        OpKind::A => drop(ctx.request_from_shell(op_a(leaf, env.acc))),
                        OpKind::B => drop(ctx.request_from_shell(op_b(leaf, env.acc))),
                    }
                }
                Stmt::CapRequest(leaf) => {
                    log_out(env.em_label, "capability request");
                    let caps = env.handles.caps.lock().unwrap().clone();
                    env.acc = match caps {
                        Some(l) => match leaf.op {
                            OpKind::A => l.a.request_from_shell(op_a(leaf, env.acc)).await,
                            OpKind::B => decode_b(l.b.request_from_shell(op_b(leaf, env.acc)).await),
                        },
                        None => shell_request(leaf, env.acc, ctx).await,
                    };
                }
                Stmt::Notify(leaf) => {
                    log_out(env.em_label, "notification");
                    match leaf.op {
                        OpKind::A => ctx.notify_shell(op_a(leaf, env.acc)),
                        OpKind::B => ctx.notify_shell(op_b(leaf, env.acc)),
                    }
                }
                Stmt::Burst { n, tag } => {
                    log_out(env.em_label, "burst of events");
                    for _ in 0..*n {
                        ctx.send_event(Event::Emitted(Emitted {
                            tag: *tag,
                            val: env.acc,
                            trace: vec![],
                            em_label: env.em_label,
                            em_start: env.em_start,
                            seq: env.seq,
                            cont: None,
                        }));
                        env.seq += 1;
                    }
                }
                Stmt::Emit { tag, cont } => {
                    log_out(env.em_label, "event");
                    ctx.send_event(Event::Emitted(Emitted {
                        tag: *tag,
                        val: env.acc,
                        trace: vec![],
                        em_label: env.em_label,
                        em_start: env.em_start,
                        seq: env.seq,
                        cont: cont.clone(),
                    }));
                    env.seq += 1;
                }
                Stmt::StreamLoop { leaf, body, take } => {
                    // the stream lives exactly as long as this block
                    let mut stream = shell_stream(leaf, env.acc, ctx);
                    let mut n = 0u32;
                    if take.map_or(true, |t| t > 0) {
                        log_out(env.em_label, "stream request");
                    }
                    while take.map_or(true, |t| n < t) {
                        match stream.next().await {
                            Some(v) => {
                                env.acc = v;
                                run_stmts(body, env, ctx).await;
                                n += 1;
                            }
                            None => break,
                        }
                    }
                    drop(stream);
                }
                Stmt::Spawn { task, slot } => {
                    let t = task.clone();
                    let acc = env.acc;
                    let hs = env.handles.clone();
                    let inst = new_task_instance();
                    // the child gets copies of the join handles its parent holds now
                    let inherited = env.slots.clone();
                    let handle = ctx.spawn(move |c| async move {
                        tracked_as(inst, interp_with::<Ef>(t, acc, c, inherited, hs)).await;
                    });
                    if let Some(slot) = slot {
                        let h2 = handle.clone();
                        env.slots.insert(
                            *slot,
                            Slot {
                                inst,
                                abort: Arc::new(move || h2.abort()),
                                join: Arc::new(move || handle.clone().boxed()),
                            },
                        );
                    }
                }
                Stmt::Join(slot) => {
                    if let Some(s) = env.slots.get(slot) {
                        let f = (s.join)();
                        f.await;
                    }
                }
                Stmt::AbortTask(slot) => {
                    if let Some(s) = env.slots.get(slot) {
                        log_task_abort(s.inst);
                        (s.abort)();
                    }
                }
                Stmt::JoinAll(ts) => {
                    let futs: Vec<_> = ts.iter().map(|t| interp_with::<Ef>(t.clone(), env.acc, ctx.clone(), env.slots.clone(), env.handles.clone())).collect();
                    futures::future::join_all(futs).await;
                }
                Stmt::SelectFirst(ts) => {
                    if !ts.is_empty() {
                        let futs: Vec<_> =
                            ts.iter().map(|t| interp_with::<Ef>(t.clone(), env.acc, ctx.clone(), env.slots.clone(), env.handles.clone())).collect();
                        let (v, _idx, rest) = futures::future::select_all(futs).await;
                        drop(rest);
                        env.acc = v;
                    }
                }
                Stmt::Fault => panic!("injected task fault"),
                Stmt::Yield(n) => {
                    for _ in 0..*n {
                        YieldOnce(false).await;
                    }
                }
                Stmt::AwaitChain { first, stages } => {
                    log_out(env.em_label, "request (chain)");
                    let b = apply_stages(Bld::R(request_builder::<Ef>(first, env.acc)), stages);
                    match b {
                        Bld::R(r) => env.acc = r.into_future(ctx.clone()).await,
                        Bld::S(s) => {
                            // a chain that turned into a stream: consume it to the end
                            let mut st = s.into_stream(ctx.clone());
                            while let Some(v) = st.next().await {
                                env.acc = v;
                            }
                        }
                    }
                }
                Stmt::HoldToken => env.tokens.push(Token::new()),
                Stmt::AbortCmd(h) => {
                    let f = env.handles.lock().unwrap().get(h).cloned();
                    if let Some(f) = f {
                        log_abort(*h);
                        f();
                    }
                }
                Stmt::SpawnChan { c, child_sends, task, slot } => {
                    let (tx, rx) = async_channel::unbounded::<u64>();
                    let end = if *child_sends {
                        env.rx.insert(*c, rx);
                        ChanEnd::Tx(*c, tx)
                    } else {
                        env.tx.insert(*c, tx);
                        ChanEnd::Rx(*c, rx)
                    };
                    let t = task.clone();
                    let acc = env.acc;
                    let hs = env.handles.clone();
                    let inst = new_task_instance();
                    let handle = ctx.spawn(move |cx| async move {
                        tracked_as(inst, interp_full::<Ef>(t, acc, cx, BTreeMap::new(), hs, Some(end))).await;
                    });
                    if let Some(slot) = slot {
                        let h2 = handle.clone();
                        env.slots.insert(*slot, Slot { inst, abort: Arc::new(move || h2.abort()), join: Arc::new(move || handle.clone().boxed()) });
                    }
                }
                Stmt::ChanSend(c) => {
                    if let Some(tx) = env.tx.get(c) {
                        let _ = tx.try_send(env.acc);
                    }
                }
                Stmt::ChanRecv(c) => {
                    if let Some(rx) = env.rx.get(c) {
                        env.acc = match rx.recv().await {
                            Ok(v) => v,
                            Err(_) => super::ast::chan_closed(env.acc),
                        };
                    }
                }
            }
        }
    }
    .boxed()
}

// ------------------------------------------------------------------------------------------------
// legacy capability interpreter (subset of statements)

struct LEnv {
    acc: u64,
    em_label: u32,
    em_start: u64,
    seq: u32,
    tokens: Vec<Token>,
}

pub fn legacy_interp(task: Task, init: u64, ctx: LegacyCtx) -> BoxFuture<'static, u64> {
    async move {
        let mut env = LEnv { acc: init, em_label: task.label, em_start: init, seq: 0, tokens: vec![] };
        legacy_stmts(&task.stmts, &mut env, &ctx).await;
        env.acc
    }
    .boxed()
}

fn legacy_stmts<'a>(stmts: &'a [Stmt], env: &'a mut LEnv, ctx: &'a LegacyCtx) -> BoxFuture<'a, ()> {
    async move {
        for s in stmts {
            match s {
                Stmt::MakeAndDrop(leaf) => match leaf.op {
                    OpKind::A => drop(ctx.a.request_from_shell(op_a(leaf, env.acc))),
                    OpKind::B => drop(ctx.b.request_from_shell(op_b(leaf, env.acc))),
                },
                Stmt::Request(leaf) | Stmt::CapRequest(leaf) => {
                    env.acc = match leaf.op {
                        OpKind::A => ctx.a.request_from_shell(op_a(leaf, env.acc)).await,
                        OpKind::B => decode_b(ctx.b.request_from_shell(op_b(leaf, env.acc)).await),
                    };
                }
                Stmt::Notify(leaf) => match leaf.op {
                    OpKind::A => ctx.a.notify_shell(op_a(leaf, env.acc)).await,
                    OpKind::B => ctx.b.notify_shell(op_b(leaf, env.acc)).await,
                },
                Stmt::Burst { n, tag } => {
                    for _ in 0..*n {
                        ctx.a.update_app(Event::Emitted(Emitted {
                            tag: *tag,
                            val: env.acc,
                            trace: vec![],
                            em_label: env.em_label,
                            em_start: env.em_start,
                            seq: env.seq,
                            cont: None,
                        }));
                        env.seq += 1;
                    }
                }
                Stmt::Emit { tag, cont } => {
                    ctx.a.update_app(Event::Emitted(Emitted {
                        tag: *tag,
                        val: env.acc,
                        trace: vec![],
                        em_label: env.em_label,
                        em_start: env.em_start,
                        seq: env.seq,
                        cont: cont.clone(),
                    }));
                    env.seq += 1;
                }
                Stmt::StreamLoop { leaf, body, take } => {
                    let mut stream: BoxStream<'static, u64> = match leaf.op {
                        OpKind::A => ctx.a.stream_from_shell(op_a(leaf, env.acc)).boxed(),
                        OpKind::B => ctx.b.stream_from_shell(op_b(leaf, env.acc)).map(decode_b).boxed(),
                    };
                    let mut n = 0u32;
                    while take.map_or(true, |t| n < t) {
                        match stream.next().await {
                            Some(v) => {
                                env.acc = v;
                                legacy_stmts(body, env, ctx).await;
                                n += 1;
                            }
                            None => break,
                        }
                    }
                    drop(stream);
                }
                Stmt::Spawn { task, .. } => {
                    let t = task.clone();
                    let acc = env.acc;
                    let c2 = ctx.clone();
                    ctx.a.spawn(async move {
                        legacy_interp(t, acc, c2).await;
                    });
                }
                Stmt::JoinAll(ts) => {
                    let futs: Vec<_> = ts.iter().map(|t| legacy_interp(t.clone(), env.acc, ctx.clone())).collect();
                    futures::future::join_all(futs).await;
                }
                Stmt::SelectFirst(ts) => {
                    if !ts.is_empty() {
                        let futs: Vec<_> =
                            ts.iter().map(|t| legacy_interp(t.clone(), env.acc, ctx.clone())).collect();
                        let (v, _idx, rest) = futures::future::select_all(futs).await;
                        drop(rest);
                        env.acc = v;
                    }
                }
                Stmt::Fault => panic!("injected task fault"),
                Stmt::Yield(n) => {
                    for _ in 0..*n {
                        YieldOnce(false).await;
                    }
                }
                Stmt::HoldToken => env.tokens.push(Token::new()),
                // not expressible with the legacy API: ignored (the generator does not emit them)
                Stmt::Join(_) | Stmt::AbortTask(_) | Stmt::AwaitChain { .. } | Stmt::AbortCmd(_) | Stmt::SpawnChan { .. } | Stmt::ChanSend(_) | Stmt::ChanRecv(_) => {}
            }
        }
    }
    .boxed()
}
