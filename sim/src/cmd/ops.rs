//! Operations, events, effect enums and the interpreter app(s) used by cmdsim.

use std::collections::BTreeMap;
use std::sync::atomic::{AtomicI64, Ordering};

use crux_core::capability::{CapabilityContext, Operation};
use crux_core::command::Command;
use crux_core::render::RenderOperation;
use crux_core::{Capability, Request};
use serde::{Deserialize, Serialize};

use super::ast::{Cmd, OpKind, Task};

// ------------------------------------------------------------------------------------------------
// operations

/// Every operation value carries a drop-counted marker (not on the wire): whatever still holds an
/// operation when the host and the shell are gone has leaked what a request captured.
pub static LIVE_OPS: AtomicI64 = AtomicI64::new(0);

pub struct OpToken;
impl Default for OpToken {
    fn default() -> Self {
        LIVE_OPS.fetch_add(1, Ordering::SeqCst);
        OpToken
    }
}
impl Clone for OpToken {
    fn clone(&self) -> Self {
        OpToken::default()
    }
}
impl Drop for OpToken {
    fn drop(&mut self) {
        LIVE_OPS.fetch_sub(1, Ordering::SeqCst);
    }
}
impl PartialEq for OpToken {
    fn eq(&self, _: &Self) -> bool {
        true
    }
}
impl Eq for OpToken {}
impl std::fmt::Debug for OpToken {
    fn fmt(&self, f: &mut std::fmt::Formatter<'_>) -> std::fmt::Result {
        f.write_str("_")
    }
}
pub fn live_ops() -> i64 {
    LIVE_OPS.load(Ordering::SeqCst)
}

#[derive(Clone, Debug, PartialEq, Eq, Serialize, Deserialize)]
pub struct OpA {
    pub site: u32,
    pub arg: u64,
    pub trace: Vec<u8>,
    #[serde(skip)]
    pub tok: OpToken,
}
impl Operation for OpA {
    type Output = u64;
}

#[derive(Clone, Debug, PartialEq, Eq, Serialize, Deserialize)]
pub struct OpB {
    pub site: u32,
    pub arg: u64,
    pub trace: Vec<u8>,
    pub blob: String,
    #[serde(skip)]
    pub tok: OpToken,
}
#[derive(Clone, Debug, PartialEq, Eq, Serialize, Deserialize)]
pub struct OutB {
    pub v: u64,
    pub tag: String,
}
impl Operation for OpB {
    type Output = OutB;
}

/// Set by the checks whose shells sometimes answer with a very large value (a response of more than a
/// megabyte must be routed and decoded like any other); off for the checks that enumerate corruptions of
/// every byte of every message.
pub static LARGE_VALUES: std::sync::atomic::AtomicBool = std::sync::atomic::AtomicBool::new(false);

fn tag_for(v: u64) -> String {
    if v % 211 == 7 && LARGE_VALUES.load(std::sync::atomic::Ordering::Relaxed) {
        format!("t{v}{}", "p".repeat(1_200_000))
    } else {
        format!("t{v}")
    }
}

pub fn out_b(v: u64) -> OutB {
    OutB { v, tag: tag_for(v) }
}
/// What a task makes of an OutB: the value if the tag arrived unchanged
pub fn decode_b(o: OutB) -> u64 {
    if o.tag == tag_for(o.v) {
        o.v
    } else {
        o.v ^ 0xDEAD_0000_0000
    }
}
pub fn blob_for(site: u32, arg: u64) -> String {
    format!("b{site}-{arg}")
}

// ------------------------------------------------------------------------------------------------
// events

#[derive(Clone, Debug, PartialEq, Eq, Serialize, Deserialize)]
pub struct Emitted {
    pub tag: u32,
    pub val: u64,
    pub trace: Vec<u8>,
    pub em_label: u32,
    pub em_start: u64,
    pub seq: u32,
    pub cont: Option<Box<Cmd>>,
}

#[derive(Clone, Debug, PartialEq, Eq, Serialize, Deserialize)]
pub enum Event {
    /// from the shell: run this program
    Run(Cmd),
    /// from an effect task
    Emitted(Emitted),
    /// from the shell: abort the command registered under this handle
    Abort(u32),
    /// from the shell: nothing
    Noop,
}

/// alternate event type for `Command::into / from` round trips
pub struct EventAlt(pub Event);
impl From<Event> for EventAlt {
    fn from(e: Event) -> Self {
        EventAlt(e)
    }
}
impl From<EventAlt> for Event {
    fn from(e: EventAlt) -> Self {
        e.0
    }
}

/// `k == IDENTITY` is the identity mapping (used by the algebraic laws)
pub const IDENTITY: u8 = 255;

pub fn event_trace_push(mut e: Event, k: u8) -> Event {
    if k == IDENTITY {
        return e;
    }
    if let Event::Emitted(em) = &mut e {
        em.trace.push(k);
    }
    e
}

// ------------------------------------------------------------------------------------------------
// app model / view

#[derive(Clone, Debug, PartialEq, Eq, PartialOrd, Ord, Serialize, Deserialize)]
pub enum LogEntry {
    Run,
    Em { em_label: u32, em_start: u64, seq: u32, tag: u32, val: u64, trace: Vec<u8> },
    Abort(u32),
    Noop,
}

#[derive(Clone, Debug, Default, PartialEq, Eq, Serialize, Deserialize)]
pub struct View {
    pub log: Vec<LogEntry>,
    pub reentered: bool,
}

#[derive(Default)]
pub struct AppModel {
    pub log: Vec<LogEntry>,
    pub handles: super::build::Handles,
    pub in_update: bool,
    pub reentered: bool,
}

// ------------------------------------------------------------------------------------------------
// drop-counted tokens (C13)

pub static LIVE_TOKENS: AtomicI64 = AtomicI64::new(0);

pub struct Token;
impl Token {
    pub fn new() -> Token {
        LIVE_TOKENS.fetch_add(1, Ordering::SeqCst);
        Token
    }
}
impl Drop for Token {
    fn drop(&mut self) {
        LIVE_TOKENS.fetch_sub(1, Ordering::SeqCst);
    }
}
pub fn live_tokens() -> i64 {
    LIVE_TOKENS.load(Ordering::SeqCst)
}

// ------------------------------------------------------------------------------------------------
// effect abstraction

pub enum AnyReq {
    A(Request<OpA>),
    B(Request<OpB>),
    Render(Request<RenderOperation>),
}

pub trait SimEffect:
    crux_core::Effect
    + Send
    + Unpin
    + Sized
    + 'static
    + From<Request<OpA>>
    + From<Request<OpB>>
    + From<Request<RenderOperation>>
    + Into<Self::Alt>
{
    type Alt: Send + Unpin + 'static + Into<Self>;
    fn split(self) -> AnyReq;
    fn trace_push(&mut self, k: u8);
}

// ------------------------------------------------------------------------------------------------
// legacy capabilities

pub struct CapA<Ev> {
    pub context: CapabilityContext<OpA, Ev>,
}
impl<Ev> Capability<Ev> for CapA<Ev> {
    type Operation = OpA;
    type MappedSelf<MappedEv> = CapA<MappedEv>;
    fn map_event<F, NewEv>(&self, f: F) -> Self::MappedSelf<NewEv>
    where
        F: Fn(NewEv) -> Ev + Send + Sync + 'static,
        Ev: 'static,
        NewEv: 'static + Send,
    {
        CapA { context: self.context.map_event(f) }
    }
}
impl<Ev> CapA<Ev> {
    pub fn new(context: CapabilityContext<OpA, Ev>) -> Self {
        Self { context }
    }
}

pub struct CapB<Ev> {
    pub context: CapabilityContext<OpB, Ev>,
}
impl<Ev> Capability<Ev> for CapB<Ev> {
    type Operation = OpB;
    type MappedSelf<MappedEv> = CapB<MappedEv>;
    fn map_event<F, NewEv>(&self, f: F) -> Self::MappedSelf<NewEv>
    where
        F: Fn(NewEv) -> Ev + Send + Sync + 'static,
        Ev: 'static,
        NewEv: 'static + Send,
    {
        CapB { context: self.context.map_event(f) }
    }
}
impl<Ev> CapB<Ev> {
    pub fn new(context: CapabilityContext<OpB, Ev>) -> Self {
        Self { context }
    }
}

/// what a legacy task needs from the capabilities
#[derive(Clone)]
pub struct LegacyCtx {
    pub a: CapabilityContext<OpA, Event>,
    pub b: CapabilityContext<OpB, Event>,
}

// ------------------------------------------------------------------------------------------------
// App 1: effect enum derived from a capabilities struct (legacy style; supports Cmd::Legacy)

pub mod app1 {
    use super::*;
    use crux_core::render::Render;

    #[derive(crux_core::macros::Effect)]
    pub struct Capabilities {
        pub a: CapA<Event>,
        pub b: CapB<Event>,
        pub render: Render<Event>,
    }

    pub struct EffectAltT(pub Effect);
    impl From<Effect> for EffectAltT {
        fn from(e: Effect) -> Self {
            EffectAltT(e)
        }
    }
    impl From<EffectAltT> for Effect {
        fn from(e: EffectAltT) -> Self {
            e.0
        }
    }

    impl SimEffect for Effect {
        type Alt = EffectAltT;
        fn split(self) -> AnyReq {
            match self {
                Effect::CapA(r) => AnyReq::A(r),
                Effect::CapB(r) => AnyReq::B(r),
                Effect::Render(r) => AnyReq::Render(r),
            }
        }
        fn trace_push(&mut self, k: u8) {
            match self {
                _ if k == IDENTITY => {}
                Effect::CapA(r) => r.operation.trace.push(k),
                Effect::CapB(r) => r.operation.trace.push(k),
                Effect::Render(_) => {}
            }
        }
    }

    #[derive(Default)]
    pub struct App;

    impl crux_core::App for App {
        type Event = Event;
        type Model = AppModel;
        type ViewModel = View;
        type Capabilities = Capabilities;
        type Effect = Effect;

        fn update(&self, event: Event, model: &mut AppModel, caps: &Capabilities) -> Command<Effect, Event> {
            let legacy = LegacyCtx { a: caps.a.context.clone(), b: caps.b.context.clone() };
            super::update_impl::<Effect>(event, model, Some(&legacy))
        }

        fn view(&self, model: &AppModel) -> View {
            // (a simulated thread may be parked here, holding the model lock for reading)
            crux_core::verif::point("app.view.inside");
            View { log: model.log.clone(), reentered: model.reentered }
        }
    }
}

// ------------------------------------------------------------------------------------------------
// App 2: effect enum declared with the `#[effect]` attribute macro (command API only)

pub mod app2 {
    use super::*;

    #[crux_core::macros::effect]
    pub enum Fx {
        A(OpA),
        B(OpB),
        Render(RenderOperation),
    }

    pub struct FxAlt(pub Fx);
    impl From<Fx> for FxAlt {
        fn from(e: Fx) -> Self {
            FxAlt(e)
        }
    }
    impl From<FxAlt> for Fx {
        fn from(e: FxAlt) -> Self {
            e.0
        }
    }

    impl SimEffect for Fx {
        type Alt = FxAlt;
        fn split(self) -> AnyReq {
            match self {
                Fx::A(r) => AnyReq::A(r),
                Fx::B(r) => AnyReq::B(r),
                Fx::Render(r) => AnyReq::Render(r),
            }
        }
        fn trace_push(&mut self, k: u8) {
            match self {
                _ if k == IDENTITY => {}
                Fx::A(r) => r.operation.trace.push(k),
                Fx::B(r) => r.operation.trace.push(k),
                Fx::Render(_) => {}
            }
        }
    }

    #[derive(Default)]
    pub struct App;

    impl crux_core::App for App {
        type Event = Event;
        type Model = AppModel;
        type ViewModel = View;
        type Capabilities = ();
        type Effect = Fx;

        fn update(&self, event: Event, model: &mut AppModel, _caps: &()) -> Command<Fx, Event> {
            super::update_impl::<Fx>(event, model, None)
        }

        fn view(&self, model: &AppModel) -> View {
            // (a simulated thread may be parked here, holding the model lock for reading)
            crux_core::verif::point("app.view.inside");
            View { log: model.log.clone(), reentered: model.reentered }
        }
    }
}

/// The interpreter app's `update`, shared by both apps and by the direct-command host
pub fn update_impl<Ef: SimEffect>(event: Event, model: &mut AppModel, legacy: Option<&LegacyCtx>) -> Command<Ef, Event> {
    *model.handles.caps.lock().unwrap() = legacy.cloned();
    if model.in_update {
        model.reentered = true;
    }
    model.in_update = true;
    // (a simulated thread may be parked here, holding the model lock for writing)
    crux_core::verif::point("app.update.inside");
    let cmd = match event {
        Event::Run(cmd) => {
            model.log.push(LogEntry::Run);
            super::build::build::<Ef>(&cmd, 0, &model.handles, legacy)
        }
        Event::Emitted(em) => {
            model.log.push(LogEntry::Em {
                em_label: em.em_label,
                em_start: em.em_start,
                seq: em.seq,
                tag: em.tag,
                val: em.val,
                trace: em.trace.clone(),
            });
            match em.cont {
                Some(c) => super::build::build::<Ef>(&c, em.val, &model.handles, legacy),
                None => Command::done(),
            }
        }
        Event::Abort(h) => {
            model.log.push(LogEntry::Abort(h));
            let f = model.handles.lock().unwrap().get(&h).cloned();
            if f.is_some() {
                super::build::log_abort(h);
            }
            if let Some(handle) = f {
                handle();
            }
            Command::done()
        }
        Event::Noop => {
            model.log.push(LogEntry::Noop);
            Command::done()
        }
    };
    model.in_update = false;
    cmd
}

pub fn legacy_run(ctx: &LegacyCtx, task: Task, init: u64) {
    let c2 = ctx.clone();
    ctx.a.spawn(async move {
        super::build::legacy_interp(task, init, c2).await;
    });
}

pub fn op_kind_name(k: OpKind) -> &'static str {
    match k {
        OpKind::A => "A",
        OpKind::B => "B",
    }
}
