//! Seeded generators: programs (swarm-configured) and model-driven action scripts.

use std::collections::BTreeSet;

use serde::{Deserialize, Serialize};

use super::ast::{Chain, Cmd, Leaf, OpKind, Stage, Stmt, Task};
use super::hosts::HostSel;
use super::model::{Arity, HostKind, Model, OpName, ReqKey, RootId};
use super::ops::Event;
use crate::rng::Rng;

#[derive(Clone, Debug, Serialize, Deserialize)]
pub struct GenCfg {
    pub max_depth: u32,
    pub fanout: u32,
    pub max_stages: u32,
    pub chains: bool,
    pub streams: bool,
    pub tasks: bool,
    pub spawn: bool,
    pub select: bool,
    pub join_all: bool,
    pub abort_cmd: bool,
    pub abort_task: bool,
    pub conts: bool,
    pub legacy: bool,
    pub maps: bool,
    pub tokens: bool,
    pub yields: bool,
    pub op_b: bool,
    pub render: bool,
    #[serde(default)]
    pub channels: bool,
    /// command tasks may await requests made through the old capability API
    #[serde(default)]
    pub cap_in_cmd: bool,
    /// tasks may emit long bursts of events within one poll
    #[serde(default)]
    pub bursts: bool,
}

impl GenCfg {
    /// swarm: each run enables a random subset of features
    pub fn swarm(rng: &mut Rng, thorough: bool) -> GenCfg {
        GenCfg {
            max_depth: if thorough { rng.range(2, 6) as u32 } else { rng.range(1, 4) as u32 },
            fanout: rng.range(2, 4) as u32,
            max_stages: rng.range(0, 4) as u32,
            chains: rng.chance(4, 5),
            streams: rng.chance(3, 5),
            tasks: rng.chance(4, 5),
            spawn: rng.chance(3, 5),
            select: rng.chance(2, 5),
            join_all: rng.chance(3, 5),
            abort_cmd: rng.chance(1, 4),
            abort_task: rng.chance(1, 4),
            conts: rng.chance(2, 5),
            legacy: false,
            maps: rng.chance(3, 5),
            tokens: false,
            yields: rng.chance(2, 5),
            op_b: rng.chance(1, 2),
            render: rng.chance(1, 3),
            channels: rng.chance(1, 3),
            cap_in_cmd: false,
            bursts: rng.chance(1, 6),
        }
    }
}

pub struct ProgGen<'a> {
    pub rng: &'a mut Rng,
    pub cfg: GenCfg,
    pub next_site: u32,
    pub next_label: u32,
    pub next_tag: u32,
    pub next_handle: u32,
    pub next_slot: u32,
    pub cont_depth: u32,
    pub budget: i32,
    /// abort handles generated so far in this program (enclosing commands first)
    pub handles_so_far: Vec<u32>,
    pub next_chan: u32,
    /// long bursts are few per program (each one is tens of events to apply)
    pub bursts_left: u32,
}

impl<'a> ProgGen<'a> {
    pub fn new(rng: &'a mut Rng, cfg: GenCfg, base: u32) -> Self {
        ProgGen {
            rng,
            cfg,
            next_site: base,
            next_label: base,
            next_tag: base,
            next_handle: base,
            next_slot: base,
            cont_depth: 0,
            budget: 40,
            handles_so_far: vec![],
            next_chan: 0,
            bursts_left: 2,
        }
    }

    fn leaf(&mut self) -> Leaf {
        self.next_site += 1;
        let op = if self.cfg.op_b && self.rng.chance(1, 3) { OpKind::B } else { OpKind::A };
        Leaf { site: self.next_site, op }
    }
    fn label(&mut self) -> u32 {
        self.next_label += 1;
        self.next_label
    }
    fn tag(&mut self) -> u32 {
        self.next_tag += 1;
        self.next_tag
    }

    fn cont(&mut self) -> Option<Box<Cmd>> {
        if self.cfg.conts && self.cont_depth < 2 && self.budget > 0 && self.rng.chance(1, 4) {
            self.cont_depth += 1;
            let c = self.cmd(1);
            self.cont_depth -= 1;
            Some(Box::new(c))
        } else {
            None
        }
    }

    fn stages(&mut self, mut is_stream: bool, allow_then_stream: bool) -> Vec<Stage> {
        let n = self.rng.range(0, u64::from(self.cfg.max_stages)) as usize;
        let mut v = vec![];
        let mut streams = u32::from(is_stream);
        for _ in 0..n {
            let st = match self.rng.below(5) {
                0 | 1 => Stage::Map(self.rng.below(8) as u8),
                2 | 3 => Stage::ThenRequest(self.leaf()),
                _ => {
                    if self.cfg.streams && allow_then_stream && streams < 2 {
                        streams += 1;
                        is_stream = true;
                        Stage::ThenStream(self.leaf())
                    } else {
                        Stage::Map(self.rng.below(8) as u8)
                    }
                }
            };
            v.push(st);
        }
        let _ = is_stream;
        v
    }

    fn chain(&mut self) -> Chain {
        let stream = self.cfg.streams && self.rng.chance(1, 3);
        let first = self.leaf();
        let stages = self.stages(stream, true);
        Chain { label: self.label(), first, stream, stages, tag: self.tag(), cont: self.cont() }
    }

    pub fn chain_public(&mut self) -> Chain {
        self.chain()
    }

    pub fn cmd(&mut self, depth: u32) -> Cmd {
        self.budget -= 1;
        let leafy = depth == 0 || self.budget <= 0;
        let mut opts: Vec<(u64, u8)> = vec![(1, 0), (2, 1), (2, 2)];
        if self.cfg.render {
            opts.push((1, 3));
        }
        if self.cfg.chains {
            opts.push((6, 4));
        }
        if self.cfg.tasks {
            opts.push((6, 11));
        }
        if self.cfg.legacy {
            opts.push((4, 13));
        }
        if !leafy {
            opts.extend([(3, 5), (3, 6), (3, 7)]);
            if self.cfg.maps {
                opts.extend([(2, 8), (2, 9), (1, 10)]);
            }
            if self.cfg.abort_cmd {
                opts.push((3, 12));
            }
        }
        let w: Vec<u64> = opts.iter().map(|o| o.0).collect();
        let pick = opts[self.rng.weighted(&w)].1;
        match pick {
            0 => Cmd::Done,
            1 => Cmd::Event { tag: self.tag(), label: self.label() },
            2 => Cmd::Notify(self.leaf()),
            3 => Cmd::Render,
            4 => Cmd::Chain(self.chain()),
            5 => Cmd::Then(Box::new(self.cmd(depth - 1)), Box::new(self.cmd(depth - 1))),
            6 => {
                // `a.and(b)` extends `a` itself, so a handle taken on `a` covers `b` too
                Cmd::And(Box::new(self.cmd(depth - 1)), Box::new(self.cmd(depth - 1)))
            }
            7 => {
                let n = self.rng.range(0, u64::from(self.cfg.fanout)) as usize;
                Cmd::All((0..n).map(|_| self.cmd(depth - 1)).collect())
            }
            8 => Cmd::MapEffect(self.rng.below(8) as u8, Box::new(self.cmd(depth - 1))),
            9 => Cmd::MapEvent(self.rng.below(8) as u8, Box::new(self.cmd(depth - 1))),
            10 => Cmd::IntoFrom(Box::new(self.cmd(depth - 1))),
            11 => Cmd::Async(self.task(depth.min(2), false)),
            12 => {
                self.next_handle += 1;
                let h = self.next_handle;
                self.handles_so_far.push(h);
                Cmd::Abortable(h, Box::new(self.cmd(depth - 1)))
            }
            _ => Cmd::Legacy(self.task(depth.min(2), true)),
        }
    }

    pub fn task(&mut self, depth: u32, legacy: bool) -> Task {
        let label = self.label();
        let n = self.rng.range(1, 4) as usize;
        let stmts = self.stmts(n, depth, legacy, &mut vec![]);
        Task { label, stmts }
    }

    /// a branch of a join / select: may await join handles of the enclosing task (a join handle
    /// awaited together with something else)
    fn branch_task(&mut self, depth: u32, legacy: bool, inherited: &[(u32, bool)]) -> Task {
        let mut t = self.task(depth, legacy);
        if !legacy && !inherited.is_empty() && self.rng.chance(1, 2) {
            let s = inherited[self.rng.usize_below(inherited.len())].0;
            let at = self.rng.usize_below(t.stmts.len() + 1);
            t.stmts.insert(at, Stmt::Join(s));
        }
        t
    }

    /// `slots`: slots spawned earlier in this statement list, with "a blocking statement has
    /// happened since the spawn" flags
    fn stmts(&mut self, n: usize, depth: u32, legacy: bool, slots: &mut Vec<(u32, bool)>) -> Vec<Stmt> {
        let mut v = vec![];
        for _ in 0..n {
            self.budget -= 1;
            let deep = depth > 0 && self.budget > 0;
            let mut opts: Vec<(u64, u8)> = vec![(6, 0), (2, 1), (5, 2)];
            if self.cfg.yields {
                opts.push((1, 9));
            }
            if self.cfg.tokens {
                opts.push((2, 11));
            }
            if !legacy && self.cfg.chains {
                opts.push((2, 10));
            }
            if deep {
                if self.cfg.streams {
                    opts.push((3, 3));
                }
                if self.cfg.spawn {
                    opts.push((3, 4));
                }
                if self.cfg.join_all {
                    opts.push((2, 7));
                }
                if self.cfg.select {
                    opts.push((2, 8));
                }
            }
            if !legacy && self.cfg.abort_cmd && !self.handles_so_far.is_empty() && self.cont_depth == 0 {
                opts.push((2, 12));
            }
            if !legacy && deep && self.cfg.channels && self.cfg.spawn {
                opts.push((3, 13));
            }
            if !legacy && !slots.is_empty() {
                opts.push((3, 5));
                if self.cfg.abort_task && slots.iter().any(|s| s.1) {
                    opts.push((3, 6));
                }
                // ... or a task this one has spawned in the very same poll (it cannot have started yet):
                // "start a prefetch, find it is not needed, abort it" - usually followed by a join
                if self.cfg.abort_task && slots.iter().any(|s| !s.1) {
                    opts.push((2, 16));
                }
            }
            if self.cfg.bursts && self.bursts_left > 0 {
                opts.push((1, 14));
            }
            if self.cfg.tokens {
                opts.push((1, 15));
            }
            let w: Vec<u64> = opts.iter().map(|o| o.0).collect();
            let pick = opts[self.rng.weighted(&w)].1;
            let st = match pick {
                15 => Stmt::MakeAndDrop(self.leaf()),
                14 => {
                    self.bursts_left -= 1;
                    Stmt::Burst { n: self.rng.range(20, 90) as u8, tag: self.tag() }
                }
                0 => {
                    slots.iter_mut().for_each(|s| s.1 = true);
                    if !legacy && self.cfg.cap_in_cmd && self.rng.chance(1, 2) {
                        Stmt::CapRequest(self.leaf())
                    } else {
                        Stmt::Request(self.leaf())
                    }
                }
                1 => Stmt::Notify(self.leaf()),
                2 => Stmt::Emit { tag: self.tag(), cont: self.cont() },
                3 => {
                    let leaf = self.leaf();
                    let bn = self.rng.range(1, 3) as usize;
                    // slots of the enclosing list are not touched inside the body
                    let body = self.stmts(bn, depth - 1, legacy, &mut vec![]);
                    let take = if self.rng.chance(1, 2) { Some(self.rng.range(1, 3) as u32) } else { None };
                    slots.iter_mut().for_each(|s| s.1 = true);
                    Stmt::StreamLoop { leaf, body, take }
                }
                4 => {
                    // a spawned task gets copies of the join handles its parent holds at that moment
                    let inherited = slots.clone();
                    let task = self.branch_task(depth - 1, legacy, &inherited);
                    let slot = if !legacy && self.rng.chance(2, 3) {
                        self.next_slot += 1;
                        slots.push((self.next_slot, false));
                        Some(self.next_slot)
                    } else {
                        None
                    };
                    Stmt::Spawn { task, slot }
                }
                5 => {
                    let s = slots[self.rng.usize_below(slots.len())].0;
                    slots.iter_mut().for_each(|s| s.1 = true);
                    Stmt::Join(s)
                }
                6 => {
                    let ok: Vec<u32> = slots.iter().filter(|s| s.1).map(|s| s.0).collect();
                    Stmt::AbortTask(ok[self.rng.usize_below(ok.len())])
                }
                16 => {
                    let ok: Vec<u32> = slots.iter().filter(|s| !s.1).map(|s| s.0).collect();
                    let s = ok[self.rng.usize_below(ok.len())];
                    if self.rng.chance(2, 3) {
                        v.push(Stmt::AbortTask(s));
                        slots.iter_mut().for_each(|s| s.1 = true);
                        Stmt::Join(s)
                    } else {
                        Stmt::AbortTask(s)
                    }
                }
                7 => {
                    let k = self.rng.range(1, 3) as usize;
                    slots.iter_mut().for_each(|s| s.1 = true);
                    let inh = slots.clone();
                    Stmt::JoinAll((0..k).map(|_| self.branch_task(depth - 1, legacy, &inh)).collect())
                }
                8 => {
                    let k = self.rng.range(2, 3) as usize;
                    let inh = slots.clone();
                    slots.iter_mut().for_each(|s| s.1 = true);
                    // every branch must block on the shell first so that ties cannot arise at start
                    let ts = (0..k)
                        .map(|_| {
                            let mut t = self.branch_task(depth - 1, legacy, &inh);
                            t.stmts.insert(0, Stmt::Request(self.leaf()));
                            t
                        })
                        .collect();
                    Stmt::SelectFirst(ts)
                }
                9 => Stmt::Yield(self.rng.range(1, 2) as u8),
                10 => {
                    let first = self.leaf();
                    let stages = self.stages(false, false);
                    slots.iter_mut().for_each(|s| s.1 = true);
                    Stmt::AwaitChain { first, stages }
                }
                12 => {
                    let i = self.rng.usize_below(self.handles_so_far.len());
                    Stmt::AbortCmd(self.handles_so_far[i])
                }
                13 => {
                    // a producer or consumer child connected by a channel; the statements that use this
                    // task's end follow directly
                    self.next_chan += 1;
                    let c = self.next_chan + self.next_label * 100;
                    let child_sends = self.rng.chance(1, 2);
                    let mut task = self.task(depth - 1, legacy);
                    let k = self.rng.range(1, 2) as usize;
                    for _ in 0..k {
                        let at = self.rng.usize_below(task.stmts.len() + 1);
                        task.stmts.insert(at, if child_sends { Stmt::ChanSend(c) } else { Stmt::ChanRecv(c) });
                    }
                    let slot = if self.rng.chance(1, 2) {
                        self.next_slot += 1;
                        slots.push((self.next_slot, false));
                        Some(self.next_slot)
                    } else {
                        None
                    };
                    v.push(Stmt::SpawnChan { c, child_sends, task, slot });
                    let mine = self.rng.range(1, 2) as usize;
                    for i in 0..mine {
                        if i > 0 && self.rng.chance(1, 2) {
                            v.push(Stmt::Emit { tag: self.tag(), cont: None });
                        }
                        v.push(if child_sends { Stmt::ChanRecv(c) } else { Stmt::ChanSend(c) });
                    }
                    slots.iter_mut().for_each(|s| s.1 = true);
                    Stmt::Emit { tag: self.tag(), cont: None }
                }
                _ => Stmt::HoldToken,
            };
            v.push(st);
        }
        v
    }
}

// ------------------------------------------------------------------------------------------------
// scenarios

#[derive(Clone, Debug, PartialEq, Eq, Serialize, Deserialize)]
pub enum Action {
    Event(Event),
    Resolve { site: u32, arg: u64, v: u64 },
    Drop { site: u32, arg: u64 },
    /// bridge hosts: an item for a live stream whose bytes do not decode (must be rejected and change nothing)
    BadItem { site: u32, arg: u64 },
    /// bridge hosts: the shell acknowledges the oldest render request it holds (rejected, and the
    /// bridge may forget the entry)
    AckRender,
    /// Direct hosts: drop the command value
    DropRoot(RootId),
    /// drop the whole core / every command
    DropAll,
}

impl Action {
    pub fn kind(&self) -> &'static str {
        match self {
            Action::Event(Event::Run(_)) => "run",
            Action::Event(Event::Abort(_)) => "abort_cmd",
            Action::Event(Event::Noop) => "noop",
            Action::Event(Event::Emitted(_)) => "emitted",
            Action::Resolve { .. } => "resolve",
            Action::Drop { .. } => "drop",
            Action::BadItem { .. } => "bad_item",
            Action::AckRender => "ack_render",
            Action::DropRoot(_) => "drop_cmd",
            Action::DropAll => "drop_core",
        }
    }
}

#[derive(Clone, Debug, Serialize, Deserialize)]
pub struct ScriptCfg {
    pub max_steps: u32,
    pub max_batch: u32,
    pub drops: bool,
    /// bridge hosts: abandon one-shot requests by answering them with bytes that do not decode
    pub bridge_drops: bool,
    /// bridge hosts: now and then an item that does not decode is sent to a live stream
    pub bad_items: bool,
    pub dups: bool,
    pub aborts: bool,
    pub noops: bool,
    pub drop_roots: bool,
    pub drop_all: bool,
    /// 0 uniform, 1 oldest first, 2 newest first
    pub order_bias: u8,
    pub stream_items: u32,
    /// one action per settle even on a direct host (needed when hosts are compared step by step)
    #[serde(default)]
    pub force_batch1: bool,
    /// duplicate responses over the bridge (known finding S6 territory)
    #[serde(default)]
    pub bridge_dups: bool,
    /// abort a directly held command before its first poll (no core can do that)
    #[serde(default)]
    pub abort_before_poll: bool,
    /// C13: drop one-shot requests of the old capability API too (S10 territory)
    #[serde(default)]
    pub legacy_drops: bool,
}

#[derive(Clone, Debug, Serialize, Deserialize)]
pub struct Scenario {
    pub host: HostSel,
    pub steps: Vec<Vec<Action>>,
    pub hash_seed: u64,
    pub buggify: bool,
    /// index of the first step of the fault-free drain phase
    pub drain_from: usize,
    /// after the script, the driver itself resolves / drops whatever the reference says is still outstanding
    #[serde(default)]
    pub adaptive_drain: bool,
    /// a directly held command is not polled after steps without a call either (as a core would not)
    #[serde(default)]
    pub defer_drops: bool,
    /// send duplicate responses for consumed one-shots over the bridge
    #[serde(default)]
    pub bridge_dups: bool,
    #[serde(default)]
    pub legacy_drops: bool,
}

pub struct ScriptOut {
    pub steps: Vec<Vec<Action>>,
    pub drain_from: usize,
    pub ambiguous: bool,
}

/// Generate an explicit action script by driving the reference model (and nothing else).
pub fn gen_script(rng: &mut Rng, programs: Vec<Cmd>, host: HostSel, sc: &ScriptCfg) -> ScriptOut {
    let kind = if host.is_direct() { HostKind::Direct } else { HostKind::Core };
    let mut m = Model::new(kind);
    m.g.legacy_supported = host.supports_legacy();
    m.g.legacy_drops = sc.legacy_drops;
    // (over a bridge only one-shots can be "dropped": by an undecodable response)
    let can_drop = sc.drops && (!host.is_bridge() || sc.bridge_drops);
    let races = programs.iter().any(Cmd::has_races);
    let max_batch = if races || !host.is_direct() || sc.force_batch1 { 1 } else { sc.max_batch.max(1) };
    let mut programs: std::collections::VecDeque<Cmd> = programs.into();
    let mut steps: Vec<Vec<Action>> = vec![];
    let mut next_v: u64 = 1_000_000;
    let mut items_sent: std::collections::BTreeMap<ReqKey, u32> = Default::default();
    let none = BTreeSet::new();
    let mut dropped_all = false;
    let mut idle_steps = 0;

    // On a core a drop is not a call: what it enables runs in the next call, together with what
    // that call itself enables. For programs with races that would be two actions in one settle,
    // so a Noop call flushes the deferred work first.
    let deferring = !host.is_direct() || sc.force_batch1;
    let mut pending_flush = false;
    for _ in 0..sc.max_steps {
        if idle_steps > 2 {
            break;
        }
        if pending_flush {
            pending_flush = false;
            let a = Action::Event(Event::Noop);
            apply_to_model(&mut m, &a);
            steps.push(vec![a]);
            m.settle(&none);
            continue;
        }
        let bsz = rng.range(1, u64::from(max_batch)) as usize;
        let mut batch = vec![];
        for _ in 0..bsz {
            let outs = m.outstanding();
            let once_open: Vec<ReqKey> =
                outs.iter().filter(|o| o.arity == Arity::Once && !o.resolved).map(|o| o.key).collect();
            let many_live: Vec<ReqKey> = outs
                .iter()
                .filter(|o| {
                    o.arity == Arity::Many
                        && o.rx_alive
                        && items_sent.get(&o.key).copied().unwrap_or(0) < sc.stream_items
                })
                .map(|o| o.key)
                .collect();
            let droppable: Vec<ReqKey> = outs
                .iter()
                .filter(|o| o.droppable && o.arity != Arity::Never && !(o.arity == Arity::Once && o.resolved))
                .filter(|o| !host.is_bridge() || o.arity == Arity::Once)
                .map(|o| o.key)
                .collect();
            let dup: Vec<ReqKey> = outs
                .iter()
                .filter(|o| {
                    (o.arity == Arity::Once && o.resolved) || o.arity == Arity::Never || (o.arity == Arity::Many && !o.rx_alive)
                })
                .map(|o| o.key)
                .collect();
            let abortable: Vec<u32> = m.abortable_handles();
            let live_roots: Vec<RootId> =
                m.roots.iter().filter(|r| !r.cmd.is_finished()).map(|r| r.id.clone()).collect();

            let mut opts: Vec<(u64, u8)> = vec![];
            if !programs.is_empty() {
                opts.push((if outs.is_empty() { 30 } else { 6 }, 0));
            }
            if !once_open.is_empty() {
                opts.push((30, 1));
            }
            if !many_live.is_empty() {
                opts.push((15, 2));
            }
            if can_drop && !droppable.is_empty() {
                opts.push((8, 3));
            }
            if host.is_bridge() && sc.bad_items && !many_live.is_empty() {
                opts.push((2, 9));
            }
            let never: Vec<ReqKey> = outs.iter().filter(|o| o.arity == Arity::Never && !o.resolved).map(|o| o.key).collect();
            if host.is_bridge() && sc.bad_items {
                // a shell that acknowledges everything: notifications and renders get answers too
                if !never.is_empty() {
                    opts.push((2, 11));
                }
                opts.push((1, 12));
            }
            if sc.dups && !dup.is_empty() && !host.is_bridge() {
                opts.push((3, 4));
            }
            if sc.bridge_dups && host.is_bridge() && !dup.is_empty() {
                opts.push((1, 4));
            }
            if sc.aborts && !abortable.is_empty() {
                opts.push((5, 5));
            }
            if sc.noops {
                opts.push((1, 6));
            }
            if sc.drop_roots && host.is_direct() && !live_roots.is_empty() {
                opts.push((2, 7));
            }
            if sc.drop_all && !dropped_all && !host.is_bridge() && !outs.is_empty() {
                opts.push((1, 8));
            }
            // fault-only actions need some productive action to interleave with
            let productive = opts.iter().any(|o| matches!(o.1, 0 | 1 | 2 | 3 | 5));
            if !productive {
                idle_steps += 1;
                if idle_steps > 2 {
                    break;
                }
            }
            if opts.is_empty() {
                break;
            }
            let w: Vec<u64> = opts.iter().map(|o| o.0).collect();
            let choose = |rng: &mut Rng, xs: &[ReqKey]| -> ReqKey {
                match sc.order_bias {
                    1 if rng.chance(3, 4) => xs[0],
                    2 if rng.chance(3, 4) => xs[xs.len() - 1],
                    _ => xs[rng.usize_below(xs.len())],
                }
            };
            let act = match opts[rng.weighted(&w)].1 {
                0 => {
                    let p = programs.pop_front().unwrap();
                    Action::Event(Event::Run(p))
                }
                1 => {
                    let k = choose(rng, &once_open);
                    next_v += 1;
                    Action::Resolve { site: k.0, arg: k.1, v: next_v }
                }
                2 => {
                    let k = choose(rng, &many_live);
                    *items_sent.entry(k).or_insert(0) += 1;
                    next_v += 1;
                    Action::Resolve { site: k.0, arg: k.1, v: next_v }
                }
                3 => {
                    let k = choose(rng, &droppable);
                    Action::Drop { site: k.0, arg: k.1 }
                }
                4 => {
                    let k = dup[rng.usize_below(dup.len())];
                    next_v += 1;
                    Action::Resolve { site: k.0, arg: k.1, v: next_v }
                }
                5 => {
                    let h = abortable[rng.usize_below(abortable.len())];
                    Action::Event(Event::Abort(h))
                }
                6 => Action::Event(Event::Noop),
                7 => Action::DropRoot(live_roots[rng.usize_below(live_roots.len())].clone()),
                9 => {
                    let k = choose(rng, &many_live);
                    Action::BadItem { site: k.0, arg: k.1 }
                }
                11 => {
                    let k = never[rng.usize_below(never.len())];
                    next_v += 1;
                    Action::Resolve { site: k.0, arg: k.1, v: next_v }
                }
                12 => Action::AckRender,
                _ => {
                    dropped_all = true;
                    Action::DropAll
                }
            };
            if races && deferring && matches!(act, Action::Drop { .. }) {
                pending_flush = true;
            }
            let just_ran: Vec<u32> = match &act {
                Action::Event(Event::Run(p)) => p.abort_handles(),
                _ => vec![],
            };
            apply_to_model(&mut m, &act);
            batch.push(act);
            // abort before the command is polled for the first time (only a holder of the bare
            // command can do that): deterministic, nothing has run yet
            if host.is_direct() && sc.aborts && sc.abort_before_poll && !just_ran.is_empty() && rng.chance(1, 5) {
                let h = just_ran[rng.usize_below(just_ran.len())];
                let a = Action::Event(Event::Abort(h));
                apply_to_model(&mut m, &a);
                batch.push(a);
            }
        }
        if batch.is_empty() {
            break;
        }
        steps.push(batch);
        m.settle(&none);
        if dropped_all {
            break;
        }
    }

    if pending_flush && !dropped_all {
        // the script ended on a drop whose consequences have not run yet
        let a = Action::Event(Event::Noop);
        apply_to_model(&mut m, &a);
        steps.push(vec![a]);
        m.settle(&none);
    }

    // drain phase, faults off: end every stream, answer every one-shot
    let drain_from = steps.len();
    for _round in 0..200 {
        let outs = m.outstanding();
        let mut batch = vec![];
        if can_drop && !host.is_bridge() {
            if let Some(o) = outs.iter().find(|o| o.arity == Arity::Many && o.droppable) {
                batch.push(Action::Drop { site: o.key.0, arg: o.key.1 });
            }
        }
        if batch.is_empty() {
            if let Some(o) = outs.iter().find(|o| o.arity == Arity::Once && !o.resolved && o.rx_alive) {
                next_v += 1;
                batch.push(Action::Resolve { site: o.key.0, arg: o.key.1, v: next_v });
            }
        }
        if batch.is_empty() {
            if let Some(o) = outs.iter().find(|o| o.arity == Arity::Once && !o.resolved) {
                next_v += 1;
                batch.push(Action::Resolve { site: o.key.0, arg: o.key.1, v: next_v });
            }
        }
        if batch.is_empty() && !programs.is_empty() && !dropped_all {
            let p = programs.pop_front().unwrap();
            batch.push(Action::Event(Event::Run(p)));
        }
        if batch.is_empty() {
            break;
        }
        for a in &batch {
            apply_to_model(&mut m, a);
        }
        let was_drop = batch.iter().any(|a| matches!(a, Action::Drop { .. }));
        steps.push(batch);
        if was_drop && races && deferring {
            m.settle(&none);
            let a = Action::Event(Event::Noop);
            apply_to_model(&mut m, &a);
            steps.push(vec![a]);
        }
        // in the drain phase zombies are reaped as soon as possible
        let z: BTreeSet<u64> = {
            let mut t = m.clone();
            t.settle(&none);
            t.optional_zombies().into_iter().collect()
        };
        m.settle(&z);
    }
    ScriptOut { steps, drain_from, ambiguous: m.g.ambiguous.is_some() }
}

pub fn apply_to_model(m: &mut Model, act: &Action) {
    match act {
        Action::Event(ev) => m.send_event(ev),
        Action::Resolve { site, arg, v } => {
            m.resolve((*site, *arg), *v);
        }
        Action::Drop { site, arg } => m.drop_req((*site, *arg)),
        Action::BadItem { .. } | Action::AckRender => {}
        Action::DropRoot(id) => m.drop_root(id),
        Action::DropAll => m.drop_all(),
    }
}

pub fn op_name(o: OpName) -> &'static str {
    match o {
        OpName::A => "A",
        OpName::B => "B",
        OpName::Render => "Render",
    }
}
