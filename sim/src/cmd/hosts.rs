//! Hosts: the same program and the same action script run under several real hosts.

use std::sync::Arc;
use std::collections::BTreeMap;

use bincode::Options as _;
use crux_core::bridge::{Bridge, BridgeError, BridgeWithSerializer};
use crux_core::render::RenderOperation;
use crux_core::{App, Command, Core, Request};
use serde::de::DeserializeOwned;
use serde::{Deserialize, Serialize};

use super::model::{Arity, EffectDesc, OpName, Outcome, ReqKey, RootId, RENDER_SITE};
use super::ops::{
    app1, app2, out_b, update_impl, AnyReq, AppModel, Event, LogEntry, OpA, OpB, OutB, SimEffect, View,
};

#[derive(Clone, Copy, Debug, PartialEq, Eq, PartialOrd, Ord, Serialize, Deserialize, Hash)]
pub enum HostSel {
    /// H1: commands inspected directly, harness-level event loop
    Direct,
    /// H3: Core, effect enum from `#[effect]` (command API only)
    CoreFx,
    /// H3/H4: Core, effect enum derived from a capabilities struct (command + legacy API)
    CoreCaps,
    /// H5: Bridge (bincode)
    BridgeBincode,
    /// H6: BridgeWithSerializer (serde_json)
    BridgeJson,
    /// H5 over the `#[effect]` app
    BridgeBincodeFx,
    /// H7: the command polled as a `Stream` by a foreign executor: one stable waker per command, polled
    /// again only when that waker was woken (event loop as in a Core)
    Stream,
}

impl HostSel {
    pub fn is_direct(self) -> bool {
        self == HostSel::Direct
    }
    pub fn is_bridge(self) -> bool {
        matches!(self, HostSel::BridgeBincode | HostSel::BridgeJson | HostSel::BridgeBincodeFx)
    }
    pub fn supports_legacy(self) -> bool {
        matches!(self, HostSel::CoreCaps | HostSel::BridgeBincode | HostSel::BridgeJson)
    }
}

#[derive(Clone, Debug, Default, PartialEq, Eq)]
pub struct StepObs {
    pub effects: Vec<EffectDesc>,
    pub new_log: Vec<LogEntry>,
    pub roots_done: Option<BTreeMap<RootId, bool>>,
    pub reentered: bool,
    /// a directly held command said `is_done()` and then still handed out an effect or event
    pub done_with_pending: Option<String>,
}

#[derive(Clone, Copy, Debug, Default, PartialEq, Eq)]
pub struct HostStats {
    pub executor_tasks: usize,
    pub ready_queue: usize,
    pub spawn_queue: usize,
    pub pending_events: usize,
    pub pending_effects: usize,
    pub command_tasks: usize,
    pub registry_entries: usize,
    pub registry_max_id: u32,
}

pub trait Host {
    fn sel(&self) -> HostSel;
    fn send_event(&mut self, ev: Event) -> Result<(), String>;
    fn resolve(&mut self, key: ReqKey, v: u64) -> Result<Outcome, String>;
    /// false if this host cannot express dropping a request
    fn drop_req(&mut self, key: ReqKey) -> bool;
    fn settle(&mut self) -> StepObs;
    fn full_log(&mut self) -> Vec<LogEntry>;
    fn stats(&mut self) -> HostStats;
    fn holds(&self, key: ReqKey) -> bool;
    fn drop_root(&mut self, _id: &RootId) {}
    /// drop every command / the whole core; the shell keeps the requests it holds
    fn drop_all_roots(&mut self) {}
    /// the one-shot under `key` has been consumed (its id may be reused from now on)
    fn consumed(&mut self, _key: ReqKey) {}
    /// invariant violations noticed by the simulated shell itself
    fn take_errors(&mut self) -> Vec<String> {
        vec![]
    }
    /// bridge only: answer again under the id of an already consumed one-shot.
    /// Returns None if this host cannot express it.
    fn resolve_consumed(&mut self, _key: ReqKey, _v: u64) -> Option<Result<Outcome, String>> {
        None
    }
    /// bridge only: the one-shot under `key` has already been answered
    fn is_consumed(&self, _key: ReqKey) -> bool {
        false
    }
    /// typed hosts: resolve an OpB request with an arbitrary output value
    fn resolve_b_raw(&mut self, _key: ReqKey, _out: OutB) -> Option<Result<Outcome, String>> {
        None
    }
    /// bridge only: send bytes that do not decode as an item of the live stream under `key`.
    /// Some(true) = rejected as undecodable, as it must be
    fn bad_item(&mut self, _key: ReqKey) -> Option<bool> {
        None
    }
    /// bridge only: answer the oldest render request still held. Some(true) = rejected as it must be
    fn ack_render(&mut self) -> Option<bool> {
        None
    }
    /// bridge only: the serialized effect batches returned so far, byte for byte, in call order
    fn take_raw(&mut self) -> Vec<Vec<u8>> {
        vec![]
    }
    /// bridge only: (never, once, many) entries in the registry
    fn registry_kinds(&mut self) -> Option<(usize, usize, usize)> {
        None
    }
}

pub enum Held {
    A(Request<OpA>),
    B(Request<OpB>),
}

fn desc_a(op: &OpA) -> EffectDesc {
    EffectDesc { site: op.site, arg: op.arg, op: OpName::A, arity: Arity::Once, trace: op.trace.clone() }
}
fn desc_b(op: &OpB) -> EffectDesc {
    EffectDesc { site: op.site, arg: op.arg, op: OpName::B, arity: Arity::Once, trace: op.trace.clone() }
}
fn desc_render() -> EffectDesc {
    EffectDesc { site: RENDER_SITE, arg: 0, op: OpName::Render, arity: Arity::Never, trace: vec![] }
}

/// typed requests held by a simulated shell
#[derive(Default)]
pub struct Shelf {
    pub reqs: BTreeMap<ReqKey, Held>,
    renders: Vec<Request<RenderOperation>>,
    pub dup_keys: Vec<ReqKey>,
}

impl Shelf {
    pub fn absorb<Ef: SimEffect>(&mut self, effs: impl IntoIterator<Item = Ef>, out: &mut Vec<EffectDesc>) {
        for e in effs {
            match e.split() {
                AnyReq::A(r) => {
                    let d = desc_a(&r.operation);
                    let key = (d.site, d.arg);
                    if self.reqs.insert(key, Held::A(r)).is_some() {
                        self.dup_keys.push(key);
                    }
                    out.push(d);
                }
                AnyReq::B(r) => {
                    let mut d = desc_b(&r.operation);
                    if r.operation.blob != super::ops::blob_for(d.site, d.arg) {
                        d.trace.push(0xEE); // payload altered in flight
                    }
                    let key = (d.site, d.arg);
                    if self.reqs.insert(key, Held::B(r)).is_some() {
                        self.dup_keys.push(key);
                    }
                    out.push(d);
                }
                AnyReq::Render(r) => {
                    self.renders.push(r);
                    if self.renders.len() > 64 {
                        self.renders.remove(0);
                    }
                    out.push(desc_render());
                }
            }
        }
    }
}

// ------------------------------------------------------------------------------------------------
// H7: polled as a stream with a stable waker

struct FlagWaker(std::sync::atomic::AtomicBool);
impl std::task::Wake for FlagWaker {
    fn wake(self: Arc<Self>) {
        self.0.store(true, std::sync::atomic::Ordering::SeqCst);
    }
    fn wake_by_ref(self: &Arc<Self>) {
        self.0.store(true, std::sync::atomic::Ordering::SeqCst);
    }
}

pub struct StreamHost<Ef: SimEffect> {
    roots: Vec<(Command<Ef, Event>, Arc<FlagWaker>, std::task::Waker)>,
    app: AppModel,
    shelf: Shelf,
    log_seen: usize,
    pending: Vec<EffectDesc>,
}

impl<Ef: SimEffect> StreamHost<Ef> {
    pub fn new() -> Self {
        StreamHost { roots: vec![], app: AppModel::default(), shelf: Shelf::default(), log_seen: 0, pending: vec![] }
    }

    fn start(&mut self, ev: Event) {
        let cmd = update_impl::<Ef>(ev, &mut self.app, None);
        let flag = Arc::new(FlagWaker(std::sync::atomic::AtomicBool::new(true)));
        let waker = std::task::Waker::from(flag.clone());
        self.roots.push((cmd, flag, waker));
    }

    /// what a Core does in `process`: run what is runnable, then apply one emitted event, and again
    fn process(&mut self) {
        use futures::Stream;
        let mut queue: std::collections::VecDeque<Event> = Default::default();
        loop {
            loop {
                let mut any = false;
                let mut i = 0;
                while i < self.roots.len() {
                    let (cmd, flag, waker) = &mut self.roots[i];
                    if !flag.0.swap(false, std::sync::atomic::Ordering::SeqCst) {
                        i += 1;
                        continue;
                    }
                    any = true;
                    let mut cx = std::task::Context::from_waker(waker);
                    let mut ended = false;
                    loop {
                        match std::pin::Pin::new(&mut *cmd).poll_next(&mut cx) {
                            std::task::Poll::Ready(Some(crux_core::command::CommandOutput::Effect(e))) => {
                                self.shelf.absorb(vec![e], &mut self.pending);
                            }
                            std::task::Poll::Ready(Some(crux_core::command::CommandOutput::Event(ev))) => queue.push_back(ev),
                            std::task::Poll::Ready(None) => {
                                ended = true;
                                break;
                            }
                            std::task::Poll::Pending => break,
                        }
                    }
                    if ended {
                        self.roots.remove(i);
                    } else {
                        i += 1;
                    }
                }
                if !any {
                    break;
                }
            }
            match queue.pop_front() {
                Some(ev) => self.start(ev),
                None => break,
            }
        }
    }
}

impl<Ef: SimEffect> Host for StreamHost<Ef> {
    fn sel(&self) -> HostSel {
        HostSel::Stream
    }
    fn send_event(&mut self, ev: Event) -> Result<(), String> {
        self.start(ev);
        self.process();
        Ok(())
    }
    fn resolve(&mut self, key: ReqKey, v: u64) -> Result<Outcome, String> {
        let Some(h) = self.shelf.reqs.get_mut(&key) else { return Ok(Outcome::Unknown) };
        let r = match h {
            Held::A(r) => r.resolve(v),
            Held::B(r) => r.resolve(out_b(v)),
        };
        if r.is_ok() {
            self.process();
        }
        Ok(if r.is_ok() { Outcome::Accepted } else { Outcome::Rejected })
    }
    fn drop_req(&mut self, key: ReqKey) -> bool {
        // not a call into the host: what it wakes runs at the next call
        self.shelf.reqs.remove(&key);
        true
    }
    fn settle(&mut self) -> StepObs {
        let mut effects = std::mem::take(&mut self.pending);
        effects.sort();
        let new_log = self.app.log[self.log_seen..].to_vec();
        self.log_seen = self.app.log.len();
        StepObs { effects, new_log, roots_done: None, reentered: self.app.reentered, done_with_pending: None }
    }
    fn full_log(&mut self) -> Vec<LogEntry> {
        self.app.log.clone()
    }
    fn stats(&mut self) -> HostStats {
        let mut s = HostStats::default();
        s.executor_tasks = self.roots.len();
        for (c, _, _) in &self.roots {
            s.command_tasks += c.verif_live_tasks();
            let (r, sp) = c.verif_queued();
            s.ready_queue += r;
            s.spawn_queue += sp;
        }
        s
    }
    fn holds(&self, key: ReqKey) -> bool {
        self.shelf.reqs.contains_key(&key)
    }
    fn drop_all_roots(&mut self) {
        self.roots.clear();
    }
}

// ------------------------------------------------------------------------------------------------
// H1: direct

pub struct DirectHost<Ef: SimEffect> {
    roots: Vec<(RootId, Option<Command<Ef, Event>>)>,
    app: AppModel,
    shelf: Shelf,
    runs: u32,
    log_seen: usize,
    pending_effects: Vec<EffectDesc>,
    settles: u32,
}

impl<Ef: SimEffect> DirectHost<Ef> {
    pub fn new() -> Self {
        DirectHost {
            roots: vec![],
            app: AppModel::default(),
            shelf: Shelf::default(),
            runs: 0,
            log_seen: 0,
            pending_effects: vec![],
            settles: 0,
        }
    }

    fn apply(&mut self, ev: Event) {
        let id = match &ev {
            Event::Run(_) => {
                self.runs += 1;
                Some(RootId::Run(self.runs - 1))
            }
            Event::Emitted(em) if em.cont.is_some() => {
                Some(RootId::Cont { em_label: em.em_label, em_start: em.em_start, seq: em.seq })
            }
            _ => None,
        };
        let cmd = update_impl::<Ef>(ev, &mut self.app, None);
        if let Some(id) = id {
            self.roots.push((id, Some(cmd)));
        }
    }
}

impl<Ef: SimEffect> Host for DirectHost<Ef> {
    fn sel(&self) -> HostSel {
        HostSel::Direct
    }
    fn send_event(&mut self, ev: Event) -> Result<(), String> {
        self.apply(ev);
        Ok(())
    }
    fn resolve(&mut self, key: ReqKey, v: u64) -> Result<Outcome, String> {
        let Some(h) = self.shelf.reqs.get_mut(&key) else { return Ok(Outcome::Unknown) };
        let r = match h {
            Held::A(r) => r.resolve(v),
            Held::B(r) => r.resolve(out_b(v)),
        };
        Ok(if r.is_ok() { Outcome::Accepted } else { Outcome::Rejected })
    }
    fn drop_req(&mut self, key: ReqKey) -> bool {
        self.shelf.reqs.remove(&key);
        true
    }
    fn settle(&mut self) -> StepObs {
        let mut effects = std::mem::take(&mut self.pending_effects);
        // every other settle the command is asked `is_done()` *before* its outputs are collected (a
        // driver loop `while !cmd.is_done() { .. }` does that): a command that says done must have
        // nothing left to hand out
        self.settles += 1;
        let ask_first = self.settles % 2 == 0;
        let mut done_with_pending = None;
        loop {
            let mut events = vec![];
            for (id, c) in self.roots.iter_mut() {
                if let Some(c) = c {
                    let said_done = ask_first && c.is_done();
                    let effs: Vec<Ef> = c.effects().collect();
                    let evs: Vec<Event> = c.events().collect();
                    if said_done && (!effs.is_empty() || !evs.is_empty()) && done_with_pending.is_none() {
                        done_with_pending = Some(format!("{id:?}: is_done() was true, then {} effect(s) and {} event(s) came out", effs.len(), evs.len()));
                    }
                    self.shelf.absorb(effs, &mut effects);
                    events.extend(evs);
                }
            }
            if events.is_empty() {
                break;
            }
            for ev in events {
                self.apply(ev);
            }
        }
        let mut done = BTreeMap::new();
        for (id, c) in self.roots.iter_mut() {
            done.insert(id.clone(), c.as_mut().map_or(true, Command::is_done));
        }
        let new_log = self.app.log[self.log_seen..].to_vec();
        self.log_seen = self.app.log.len();
        effects.sort();
        StepObs { effects, new_log, roots_done: Some(done), reentered: self.app.reentered, done_with_pending }
    }
    fn full_log(&mut self) -> Vec<LogEntry> {
        self.app.log.clone()
    }
    fn stats(&mut self) -> HostStats {
        let mut s = HostStats::default();
        for (_, c) in &self.roots {
            if let Some(c) = c {
                s.command_tasks += c.verif_live_tasks();
                let (r, sp) = c.verif_queued();
                s.ready_queue += r;
                s.spawn_queue += sp;
            }
        }
        s
    }
    fn holds(&self, key: ReqKey) -> bool {
        self.shelf.reqs.contains_key(&key)
    }
    fn drop_root(&mut self, id: &RootId) {
        for (rid, c) in self.roots.iter_mut() {
            if rid == id {
                *c = None;
            }
        }
    }
    fn drop_all_roots(&mut self) {
        for (_, c) in self.roots.iter_mut() {
            *c = None;
        }
    }
}

// ------------------------------------------------------------------------------------------------
// H3 / H4: Core

pub trait SimApp: App<Event = Event, ViewModel = View> + 'static
where
    Self::Effect: SimEffect,
{
    fn make_core() -> Core<Self>;
    const SEL: HostSel;
}

impl SimApp for app1::App {
    fn make_core() -> Core<Self> {
        Core::new()
    }
    const SEL: HostSel = HostSel::CoreCaps;
}
impl SimApp for app2::App {
    fn make_core() -> Core<Self> {
        Core::new()
    }
    const SEL: HostSel = HostSel::CoreFx;
}

pub struct CoreHost<A: SimApp>
where
    A::Effect: SimEffect,
{
    pub core: Option<Core<A>>,
    pub shelf: Shelf,
    pub pending: Vec<EffectDesc>,
    log_seen: usize,
}

impl<A: SimApp> CoreHost<A>
where
    A::Effect: SimEffect,
{
    pub fn new() -> Self {
        CoreHost { core: Some(A::make_core()), shelf: Shelf::default(), pending: vec![], log_seen: 0 }
    }
    pub fn drop_core(&mut self) {
        self.core = None;
    }
}

/// `Core::resolve` escalates a rejected resolution through `debug_assert!` in builds with debug
/// assertions; that is accepted as a rejection.
fn is_debug_assert_rejection(loc: &str, msg: &str) -> bool {
    loc.contains("crux_core/src/core/mod.rs") && msg.contains("resolve_result.is_ok()")
}

impl<A: SimApp> Host for CoreHost<A>
where
    A::Effect: SimEffect,
{
    fn sel(&self) -> HostSel {
        A::SEL
    }
    fn send_event(&mut self, ev: Event) -> Result<(), String> {
        let Some(core) = &self.core else { return Ok(()) };
        let effs = core.process_event(ev);
        self.shelf.absorb(effs, &mut self.pending);
        Ok(())
    }
    fn resolve(&mut self, key: ReqKey, v: u64) -> Result<Outcome, String> {
        let Some(h) = self.shelf.reqs.get_mut(&key) else { return Ok(Outcome::Unknown) };
        let Some(core) = &self.core else {
            // core dropped: resolve the bare request
            let r = match h {
                Held::A(r) => r.resolve(v),
                Held::B(r) => r.resolve(out_b(v)),
            };
            return Ok(if r.is_ok() { Outcome::Accepted } else { Outcome::Rejected });
        };
        let r = crate::runner::catch(|| match h {
            Held::A(r) => core.resolve(r, v),
            Held::B(r) => core.resolve(r, out_b(v)),
        });
        match r {
            Ok(Ok(effs)) => {
                self.shelf.absorb(effs, &mut self.pending);
                Ok(Outcome::Accepted)
            }
            Ok(Err(_)) => Ok(Outcome::Rejected),
            Err((loc, msg)) => {
                if is_debug_assert_rejection(&loc, &msg) {
                    Ok(Outcome::Rejected)
                } else {
                    Err(format!("panic:{loc}:{msg}"))
                }
            }
        }
    }
    fn drop_req(&mut self, key: ReqKey) -> bool {
        self.shelf.reqs.remove(&key);
        true
    }
    fn settle(&mut self) -> StepObs {
        let mut effects = std::mem::take(&mut self.pending);
        effects.sort();
        let (new_log, reentered) = match &self.core {
            Some(core) => {
                let v = core.view();
                let nl = v.log[self.log_seen.min(v.log.len())..].to_vec();
                self.log_seen = v.log.len();
                (nl, v.reentered)
            }
            None => (vec![], false),
        };
        StepObs { effects, new_log, roots_done: None, reentered, done_with_pending: None }
    }
    fn full_log(&mut self) -> Vec<LogEntry> {
        self.core.as_ref().map(|c| c.view().log).unwrap_or_default()
    }
    fn stats(&mut self) -> HostStats {
        match &self.core {
            Some(core) => {
                let s = core.verif_stats();
                HostStats {
                    executor_tasks: s.executor_tasks,
                    ready_queue: s.ready_queue,
                    spawn_queue: s.spawn_queue,
                    pending_events: s.pending_events,
                    pending_effects: s.pending_effects,
                    ..Default::default()
                }
            }
            None => HostStats::default(),
        }
    }
    fn holds(&self, key: ReqKey) -> bool {
        self.shelf.reqs.contains_key(&key)
    }
    fn drop_all_roots(&mut self) {
        self.core = None;
    }
    fn resolve_b_raw(&mut self, key: ReqKey, out: OutB) -> Option<Result<Outcome, String>> {
        let Some(Held::B(r)) = self.shelf.reqs.get_mut(&key) else { return None };
        let core = self.core.as_ref()?;
        let res = crate::runner::catch(|| core.resolve(r, out));
        Some(match res {
            Ok(Ok(effs)) => {
                self.shelf.absorb(effs, &mut self.pending);
                Ok(Outcome::Accepted)
            }
            Ok(Err(_)) => Ok(Outcome::Rejected),
            Err((loc, msg)) => {
                if is_debug_assert_rejection(&loc, &msg) {
                    Ok(Outcome::Rejected)
                } else {
                    Err(format!("panic:{loc}:{msg}"))
                }
            }
        })
    }
}

// ------------------------------------------------------------------------------------------------
// H5 / H6: bridges

pub fn bincode_opts() -> impl bincode::Options + Copy {
    bincode::DefaultOptions::new().with_fixint_encoding().allow_trailing_bytes()
}

#[derive(Clone, Copy, Debug, PartialEq, Eq)]
pub enum Wire {
    Bincode,
    Json,
}

pub fn encode<T: Serialize>(wire: Wire, v: &T) -> Vec<u8> {
    match wire {
        Wire::Bincode => bincode_opts().serialize(v).expect("bincode encode"),
        Wire::Json => serde_json::to_vec(v).expect("json encode"),
    }
}

pub fn decode<T: DeserializeOwned>(wire: Wire, bytes: &[u8]) -> Result<T, String> {
    match wire {
        Wire::Bincode => bincode_opts().deserialize(bytes).map_err(|e| e.to_string()),
        Wire::Json => {
            let mut de = serde_json::Deserializer::from_slice(bytes);
            T::deserialize(&mut de).map_err(|e| e.to_string())
        }
    }
}

pub enum AnyBridge<A: App> {
    Bin(Bridge<A>),
    Json(BridgeWithSerializer<A>),
}

impl<A: App> AnyBridge<A>
where
    A::Event: for<'a> Deserialize<'a>,
{
    pub fn process_event(&self, bytes: &[u8]) -> Result<Vec<u8>, BridgeError> {
        match self {
            AnyBridge::Bin(b) => b.process_event(bytes),
            AnyBridge::Json(b) => {
                let mut out = vec![];
                let mut de = serde_json::Deserializer::from_slice(bytes);
                let mut ser = serde_json::Serializer::new(&mut out);
                b.process_event(&mut de, &mut ser)?;
                Ok(out)
            }
        }
    }
    pub fn handle_response(&self, id: u32, bytes: &[u8]) -> Result<Vec<u8>, BridgeError> {
        match self {
            AnyBridge::Bin(b) => b.handle_response(id, bytes),
            AnyBridge::Json(b) => {
                let mut out = vec![];
                let mut de = serde_json::Deserializer::from_slice(bytes);
                let mut ser = serde_json::Serializer::new(&mut out);
                b.handle_response(id, &mut de, &mut ser)?;
                Ok(out)
            }
        }
    }
    pub fn view(&self) -> Result<Vec<u8>, BridgeError> {
        match self {
            AnyBridge::Bin(b) => b.view(),
            AnyBridge::Json(b) => {
                let mut out = vec![];
                let mut ser = serde_json::Serializer::new(&mut out);
                b.view(&mut ser)?;
                Ok(out)
            }
        }
    }
    pub fn registry(&self) -> Vec<(u32, crux_core::verif::EntryKind)> {
        match self {
            AnyBridge::Bin(b) => b.verif_registry(),
            AnyBridge::Json(b) => b.verif_registry(),
        }
    }
    pub fn core_stats(&self) -> crux_core::verif::CoreStats {
        match self {
            AnyBridge::Bin(b) => b.verif_stats(),
            AnyBridge::Json(b) => b.verif_stats(),
        }
    }
}

/// What the simulated shell decodes out of the Ffi effect
pub trait FfiDesc {
    fn desc(&self) -> EffectDesc;
}
impl FfiDesc for app1::EffectFfi {
    fn desc(&self) -> EffectDesc {
        match self {
            app1::EffectFfi::CapA(op) => desc_a(op),
            app1::EffectFfi::CapB(op) => {
                let mut d = desc_b(op);
                if op.blob != super::ops::blob_for(d.site, d.arg) {
                    d.trace.push(0xEE);
                }
                d
            }
            app1::EffectFfi::Render(_) => desc_render(),
        }
    }
}
impl FfiDesc for app2::FxFfi {
    fn desc(&self) -> EffectDesc {
        match self {
            app2::FxFfi::A(op) => desc_a(op),
            app2::FxFfi::B(op) => {
                let mut d = desc_b(op);
                if op.blob != super::ops::blob_for(d.site, d.arg) {
                    d.trace.push(0xEE);
                }
                d
            }
            app2::FxFfi::Render(_) => desc_render(),
        }
    }
}

pub struct BridgeHost<A: SimApp>
where
    A::Effect: SimEffect,
{
    pub bridge: AnyBridge<A>,
    pub wire: Wire,
    sel: HostSel,
    /// key -> (effect id, op)
    pub ids: BTreeMap<ReqKey, (u32, OpName)>,
    pub render_ids: Vec<u32>,
    pending: Vec<EffectDesc>,
    log_seen: usize,
    pub max_id: u32,
    pub id_reuse: u64,
    seen_ids: std::collections::BTreeSet<u32>,
    pub errors: Vec<String>,
    /// one-shots already answered: key -> (id, op), kept for deliberate duplicate responses
    pub consumed: BTreeMap<ReqKey, (u32, OpName)>,
    /// two outstanding requests with the same (site, arg): the program is outside the generator's discipline
    pub dup_keys: Vec<ReqKey>,
    pub raw: Vec<Vec<u8>>,
}

impl<A: SimApp> BridgeHost<A>
where
    A::Effect: SimEffect,
    <A::Effect as crux_core::Effect>::Ffi: DeserializeOwned + FfiDesc,
{
    pub fn new(wire: Wire, sel: HostSel) -> Self {
        let core = A::make_core();
        let bridge = match wire {
            Wire::Bincode => AnyBridge::Bin(Bridge::new(core)),
            Wire::Json => AnyBridge::Json(BridgeWithSerializer::new(core)),
        };
        BridgeHost {
            bridge,
            wire,
            sel,
            ids: BTreeMap::new(),
            render_ids: vec![],
            pending: vec![],
            log_seen: 0,
            max_id: 0,
            id_reuse: 0,
            seen_ids: Default::default(),
            errors: vec![],
            consumed: BTreeMap::new(),
            dup_keys: vec![],
            raw: vec![],
        }
    }

    pub fn absorb_bytes(&mut self, bytes: &[u8]) -> Result<(), String> {
        if self.raw.len() < 10_000 {
            self.raw.push(bytes.to_vec());
        }
        let reqs: Vec<crux_core::bridge::Request<<A::Effect as crux_core::Effect>::Ffi>> =
            decode(self.wire, bytes).map_err(|e| format!("shell could not decode the effect requests: {e}"))?;
        for r in reqs {
            let id = r.id.0;
            let d = r.effect.desc();
            self.max_id = self.max_id.max(id);
            if !self.seen_ids.insert(id) {
                self.id_reuse += 1;
            }
            if d.op == OpName::Render {
                self.render_ids.push(id);
            } else {
                // ids of outstanding requests must be pairwise distinct
                if let Some((k, _)) = self.ids.iter().find(|(_, (i, _))| *i == id) {
                    self.errors.push(format!("id {id} handed out for {:?} while still held for {k:?}", (d.site, d.arg)));
                }
                if self.ids.insert((d.site, d.arg), (id, d.op)).is_some() {
                    self.dup_keys.push((d.site, d.arg));
                }
            }
            self.pending.push(d);
        }
        Ok(())
    }

    pub fn encode_output(&self, op: OpName, v: u64) -> Vec<u8> {
        match op {
            OpName::A => encode(self.wire, &v),
            OpName::B => encode::<OutB>(self.wire, &out_b(v)),
            OpName::Render => encode(self.wire, &()),
        }
    }
}

impl<A: SimApp> Host for BridgeHost<A>
where
    A::Effect: SimEffect,
    <A::Effect as crux_core::Effect>::Ffi: DeserializeOwned + FfiDesc,
{
    fn sel(&self) -> HostSel {
        self.sel
    }
    fn send_event(&mut self, ev: Event) -> Result<(), String> {
        let bytes = encode(self.wire, &ev);
        let out = self.bridge.process_event(&bytes).map_err(|e| format!("bridge rejected a valid event: {e}"))?;
        self.absorb_bytes(&out)
    }
    fn resolve(&mut self, key: ReqKey, v: u64) -> Result<Outcome, String> {
        let Some((id, op)) = self.ids.get(&key).copied() else { return Ok(Outcome::Unknown) };
        let bytes = self.encode_output(op, v);
        // a one-shot entry is consumed by an accepted response: from then on its id may be reused
        // Any response consumes a one-shot entry; a (wrong) response to a notification makes the
        // registry forget it. From then on the id may be handed out again.
        let forgets = self
            .bridge
            .registry()
            .iter()
            .any(|(i, k)| *i == id && *k != crux_core::verif::EntryKind::Many);
        if forgets {
            if let Some(v) = self.ids.remove(&key) {
                self.consumed.insert(key, v);
            }
        }
        match self.bridge.handle_response(id, &bytes) {
            Ok(out) => {
                self.absorb_bytes(&out)?;
                Ok(Outcome::Accepted)
            }
            Err(BridgeError::ProcessResponse(_)) => {
                // rejected: the request can no longer be resolved (consumer ended, notification), so
                // it is not outstanding any more and the bridge is free to forget it and reuse its id
                if let Some(v) = self.ids.remove(&key) {
                    self.consumed.insert(key, v);
                }
                Ok(Outcome::Rejected)
            }
            Err(e) => Err(format!("bridge rejected a valid response: {e}")),
        }
    }
    fn ack_render(&mut self) -> Option<bool> {
        if self.render_ids.is_empty() {
            return None;
        }
        let id = self.render_ids.remove(0);
        // (the id may have been handed out again if the bridge forgot the entry some other way)
        if self.ids.values().any(|(i, _)| *i == id) {
            return None;
        }
        let bytes = self.encode_output(OpName::Render, 0);
        Some(matches!(self.bridge.handle_response(id, &bytes), Err(BridgeError::ProcessResponse(_))))
    }
    fn take_raw(&mut self) -> Vec<Vec<u8>> {
        std::mem::take(&mut self.raw)
    }
    fn bad_item(&mut self, key: ReqKey) -> Option<bool> {
        let (id, _op) = self.ids.get(&key).copied()?;
        let many = self.bridge.registry().iter().any(|(i, k)| *i == id && *k == crux_core::verif::EntryKind::Many);
        if !many {
            return None;
        }
        let garbage: &[u8] = match self.wire {
            Wire::Bincode => &[0xff],
            Wire::Json => b"{\"no",
        };
        Some(matches!(self.bridge.handle_response(id, garbage), Err(BridgeError::DeserializeOutput(_))))
    }
    /// A byte-level shell cannot drop a request value. What it can do to a one-shot is answer it with
    /// bytes that do not decode: the response is rejected, and the request is not outstanding any more
    /// from the shell's point of view.
    fn drop_req(&mut self, key: ReqKey) -> bool {
        let Some((id, _op)) = self.ids.get(&key).copied() else { return false };
        let once = self.bridge.registry().iter().any(|(i, k)| *i == id && *k == crux_core::verif::EntryKind::Once);
        if !once {
            return false;
        }
        let garbage: &[u8] = match self.wire {
            Wire::Bincode => &[0xff],
            Wire::Json => b"{\"no",
        };
        match self.bridge.handle_response(id, garbage) {
            Err(BridgeError::DeserializeOutput(_)) => {}
            Err(e) => self.errors.push(format!("undecodable response to a one-shot: unexpected error kind {e}")),
            Ok(_) => self.errors.push("undecodable response to a one-shot was accepted".into()),
        }
        if let Some(v) = self.ids.remove(&key) {
            self.consumed.insert(key, v);
        }
        true
    }
    fn settle(&mut self) -> StepObs {
        let mut effects = std::mem::take(&mut self.pending);
        effects.sort();
        let (new_log, reentered) = match self.bridge.view().map_err(|e| e.to_string()).and_then(|b| decode::<View>(self.wire, &b)) {
            Ok(v) => {
                let nl = v.log[self.log_seen.min(v.log.len())..].to_vec();
                self.log_seen = v.log.len();
                (nl, v.reentered)
            }
            Err(e) => {
                self.errors.push(format!("view could not be decoded: {e}"));
                (vec![], false)
            }
        };
        StepObs { effects, new_log, roots_done: None, reentered, done_with_pending: None }
    }
    fn full_log(&mut self) -> Vec<LogEntry> {
        self.bridge.view().ok().and_then(|b| decode::<View>(self.wire, &b).ok()).map(|v| v.log).unwrap_or_default()
    }
    fn stats(&mut self) -> HostStats {
        let s = self.bridge.core_stats();
        let reg = self.bridge.registry();
        HostStats {
            executor_tasks: s.executor_tasks,
            ready_queue: s.ready_queue,
            spawn_queue: s.spawn_queue,
            pending_events: s.pending_events,
            pending_effects: s.pending_effects,
            command_tasks: 0,
            registry_entries: reg.len(),
            registry_max_id: self.max_id,
        }
    }
    fn holds(&self, key: ReqKey) -> bool {
        self.ids.contains_key(&key)
    }
    fn take_errors(&mut self) -> Vec<String> {
        std::mem::take(&mut self.errors)
    }
    fn is_consumed(&self, key: ReqKey) -> bool {
        self.consumed.contains_key(&key)
    }
    fn resolve_consumed(&mut self, key: ReqKey, v: u64) -> Option<Result<Outcome, String>> {
        let (id, op) = self.consumed.get(&key).copied()?;
        let bytes = self.encode_output(op, v);
        // if the id has been handed out again the response reaches an unrelated request,
        // whatever the call then returns
        if self.bridge.registry().iter().any(|e| e.0 == id) {
            let _ = crate::runner::catch(|| self.bridge.handle_response(id, &bytes));
            return Some(Err(format!("misrouted: effect id {id} has been reused")));
        }
        let r = crate::runner::catch(|| self.bridge.handle_response(id, &bytes));
        // a misdirected response may have made the registry forget a notification entry
        let present: std::collections::BTreeSet<u32> = self.bridge.registry().iter().map(|e| e.0).collect();
        self.ids.retain(|_, (i, _)| present.contains(i));
        Some(match r {
            Ok(Ok(out)) => match self.absorb_bytes(&out) {
                Ok(()) => Ok(Outcome::Accepted),
                Err(e) => Err(e),
            },
            Ok(Err(_)) => Ok(Outcome::Rejected),
            Err((loc, msg)) => Err(format!("panic:{loc}:{msg}")),
        })
    }
    fn registry_kinds(&mut self) -> Option<(usize, usize, usize)> {
        use crux_core::verif::EntryKind;
        let reg = self.bridge.registry();
        Some((
            reg.iter().filter(|e| e.1 == EntryKind::Never).count(),
            reg.iter().filter(|e| e.1 == EntryKind::Once).count(),
            reg.iter().filter(|e| e.1 == EntryKind::Many).count(),
        ))
    }
}

pub fn make_host(sel: HostSel) -> Box<dyn Host> {
    match sel {
        HostSel::Direct => Box::new(DirectHost::<app2::Fx>::new()),
        HostSel::CoreFx => Box::new(CoreHost::<app2::App>::new()),
        HostSel::CoreCaps => Box::new(CoreHost::<app1::App>::new()),
        HostSel::BridgeBincode => Box::new(BridgeHost::<app1::App>::new(Wire::Bincode, sel)),
        HostSel::BridgeJson => Box::new(BridgeHost::<app1::App>::new(Wire::Json, sel)),
        HostSel::BridgeBincodeFx => Box::new(BridgeHost::<app2::App>::new(Wire::Bincode, sel)),
        HostSel::Stream => Box::new(StreamHost::<app2::Fx>::new()),
    }
}
