pub mod ast;
pub mod build;
pub mod model;
pub mod ops;
pub mod hosts;
pub mod gen;
pub mod driver;
pub mod shrink;
