#!/usr/bin/env python3
import json,glob,sys
pat=sys.argv[1] if len(sys.argv)>1 else '*'
for f in sorted(glob.glob(f'{pat}.json')):
    d=json.load(open(f))
    print('==',f.split('/')[-1]); print(d['msg'][:500])
    sc=d['scenario']
    print(json.dumps(sc,separators=(',',':'))[:int(sys.argv[2]) if len(sys.argv)>2 else 1500]); print()
