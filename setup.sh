#!/bin/bash
# Build the simulator from files on disk only (offline).
set -e
cd "$(dirname "$0")"
export CARGO_NET_OFFLINE=true
mkdir -p work evidence replays
( cd sim && cargo build --release --offline )
echo "setup ok"
