#!/usr/bin/env python3
"""Regenerates MANIFEST.json from the table below (kept in one place so it stays valid)."""
import json, subprocess

HOOK_COMMITS = subprocess.run(["git","-C","/repo","log","--format=%H %s","--grep=verif hooks"],capture_output=True,text=True).stdout.strip().splitlines()

CHECKS = {
 # id: (engine, category, design_ref, technique, text, note)
 "C04": ("cmdsim","exploration","§5 C04","deterministic simulation: seeded programs x shell schedules x faults against a reference model, plus real-vs-real algebraic laws",
   "Seeded search over generated command expressions and every kind of shell schedule (out-of-order, dropped, duplicate, late resolutions, aborts, dropped commands) on the directly inspected Command; each step is compared with a reference interpreter of the documented semantics, and independently the algebraic laws are checked real-vs-real under the same script. Sampling, not proof: right level because the space (programs x schedules) is unbounded and the defects of interest need specific interleavings.",
   "Trusted: the reference model (sim/src/cmd/model.rs), the futures/crossbeam crates, the confluence discipline (ambiguous runs are discarded, not judged)."),
}

NOT_YET = {}

NA = {
 "C10": "schema-versus-bytes agreement is a pure function of (type, value): no schedule, clock, fault or interleaving enters it, so deterministic simulation has nothing to decide",
 "C14": "the HttpRequest an app's builder calls produce is a pure function of the builder inputs (quantified over inputs and configurations only); no history, schedule or fault influences it",
 "C19": "instant/duration conversions are pure arithmetic on their argument; input-space work, not simulation",
 "C20": "the CLI registry is a pure function of the rustdoc description; invariance under renumbering is metamorphic input testing and its only environmental nondeterminism sits in a third-party type with no seam the simulator can own",
}

ALL = ["C%02d"%i for i in range(1,21)]

def main():
    checks=[]
    for pid,(engine,cat,ref,tech,text,note) in sorted(CHECKS.items()):
        checks.append({
            "property_id": pid,
            "quick_cmd": f"./check {pid} quick",
            "thorough_cmd": f"./check {pid} thorough",
            "evidence_file": f"/verif/evidence/{pid}.json",
            "replay_cmd_template": f"./check {pid} --replay {{path}}",
            "engine": engine,
            "level_claimed": {"category": cat, "text": text, "design_ref": ref},
            "level_note": note,
            "technique": tech,
        })
    na=[{"property_id":k,"reason":v} for k,v in sorted(NA.items())]
    for pid in ALL:
        if pid not in CHECKS and pid not in NA:
            na.append({"property_id":pid,"reason":"not claimed yet: its check is still being built in this round (see DESIGN.md §11); no verdict is offered"})
    na.sort(key=lambda x:x["property_id"])
    m={
      "version":1,
      "setup_cmd":"./setup.sh",
      "hooks":{
        "guard":"--cfg crux_verif",
        "enable":"sim/.cargo/config.toml passes rustflags = [\"--cfg\",\"crux_verif\"] to every crate of the simulator build, which depends on /repo's crates by path; nothing is enabled in /repo's own builds",
        "baseline_off_cmd":"cd /repo && RUSTUP_TOOLCHAIN=stable-x86_64-unknown-linux-gnu cargo nextest run --workspace --no-fail-fast --offline --test-threads 8",
        "source_commits":[l.split()[0] for l in HOOK_COMMITS],
        "add_only":True,
      },
      "engines":[
        {"name":"cmdsim","path":"sim/src/cmd","serves_properties":sorted([k for k,v in CHECKS.items() if v[0]=="cmdsim"]),"kind_free_text":"generated program AST built twice (real crux API / reference interpreter), simulated shell with fault injection, six real hosts"},
      ],
      "checks":checks,
      "not_applicable":na,
      "notes":"Exit codes: 0 held, 1 violation (VIOLATION line with replay file), 2 harness error (no VIOLATION line). VERIF_SEED selects the master seed (default 1); VERIF_RUNS / VERIF_WORKERS override batch size and process count.",
    }
    json.dump(m,open("/verif/MANIFEST.json","w"),indent=1)
    print("wrote MANIFEST.json with",len(checks),"checks")
main()
