#!/usr/bin/env python3
"""Regenerates MANIFEST.json from the table below (kept in one place so it stays valid)."""
import json, subprocess

HOOK_COMMITS = subprocess.run(["git","-C","/repo","log","--format=%H %s","--grep=verif hook"],capture_output=True,text=True).stdout.strip().splitlines()

CHECKS = {
 # id: (engine, category, design_ref, technique, text, note)
 "C01": ("cmdsim","exploration","§5 C01","deterministic simulation: seeded programs x shell schedules x faults on Core hosts against a reference model + runtime-queue quiescence probe",
   "Seeded search over generated apps (command and legacy capability programs, event continuations) and shell schedules on Core; per call the returned effects and applied events must equal the reference (nothing missing, duplicated or deferred) and the runtime queues must be empty afterwards. Sampling over an unbounded product space, not proof.",
   "Trusted: reference model, verif_stats accessor, confluence discipline (ambiguous runs discarded)."),
 "C02": ("cmdsim","exploration","§5 C02","deterministic simulation with duplication/late/never-resolve faults; unique response values make delivery attributable",
   "Seeded search with many simultaneously outstanding look-alike requests on typed, bincode and JSON paths; every resolve outcome (accepted/rejected) and every delivered value is compared with the reference arity table and routing. Sampling, not proof.",
   "Trusted: reference model; debug_assert escalation in Core::resolve is accepted as rejection; duplicates over the bridge are injected rarely (known finding)."),
 "C03": ("cmdsim","exploration","§5 C03","deterministic simulation: event bursts and continuations on Core/bridge hosts; exactly-once, per-emitter order, re-entrancy flag, view monotonicity",
   "Seeded search over programs whose tasks emit bursts of events interleaved with requests, with continuations; the app log read through view must contain every emitted event once, each emitter in order, and update must never be re-entered. Single-threaded half only; concurrent callers are C08.",
   "Trusted: reference model for the multiset of events; per-emitter sequence numbers are assigned by the generated tasks themselves."),
 "C04": ("cmdsim","exploration","§5 C04","deterministic simulation: seeded programs x shell schedules x faults against a reference model, plus real-vs-real algebraic laws",
   "Seeded search over generated command expressions and every kind of shell schedule (out-of-order, dropped, duplicate, late resolutions, aborts, dropped commands) on the directly inspected Command; each step is compared with a reference interpreter of the documented semantics, and independently the algebraic laws are checked real-vs-real under the same script. Sampling, not proof: right level because the space (programs x schedules) is unbounded and the defects of interest need specific interleavings.",
   "Trusted: the reference model (sim/src/cmd/model.rs), the futures/crossbeam crates, the confluence discipline (ambiguous runs are discarded, not judged)."),
 "C05": ("cmdsim","exploration","§5 C05","deterministic simulation, differential: one program + one script under six real hosts and under k wrapping layers, compared step by step real-vs-real",
   "The same generated program and explicit action script are executed under the direct command, k semantics-preserving wrapping layers (k up to 64), Core with both effect styles, the legacy capability API, the bincode bridge and the JSON bridge; per-step effects, applied events and resolve outcomes must be equal (lost wake-ups show as outputs arriving in a later step). Model-free for the comparison itself.",
   "Trusted: the harness's own decoder on the bridge paths; hosts that cannot express an action (drops over a bridge, legacy programs without capabilities) sit that run out."),
 "C06": ("cmdsim","fault_enumeration","§5 C06","deterministic simulation with exhaustive enumeration of every single cancellation placement per sampled (program, schedule)",
   "For each sampled program and fault-free base script every step boundary x every cancellable target (abort handle, outstanding request, command value, everything) is executed as its own run, then the script continues with late resolves and an adaptive drain; the reference model is the oracle after the cancellation point. Enumeration is complete per sampled base, sampling across bases.",
   "Trusted: reference model incl. its tolerance for when lazily reaped aborted work disappears; AbortTask placements come from generated programs, not from enumeration."),
 "C07": ("cmdsim","exploration","§5 C07","deterministic simulation on the direct Command with buggify-injected spurious wake-ups; is_done compared with the reference at every quiescent point",
   "Seeded search over programs mixing requests, streams, joins, selects, join handles and self-waking futures with resolve-some/drop-others scripts; is_done and all outputs are compared with a reference that discards a task exactly when it finished, was cancelled or can never be woken again. Sampling, not proof.",
   "Trusted: reference model; Future-contract-compliant task code; either answer accepted while requests of losing select branches are still held by the shell."),
 "C08": ("thrsim","exploration","§5 C08, §2.7","deterministic simulation of thread schedules: real OS threads parked and released one at a time by a baton-passing controller at named schedule points; explicit preemption schedule as replay file",
   "Two or three simulated shell threads call into one Core or Bridge concurrently (resolve, stream items - several threads on one stream id over the bridge -, process_event, view); the controller decides every interleaving at the placed points, and totals, per-emitter order, view prefixes, quiescence and liveness of subscriptions are compared with the sequential outcome. Seeded search over schedules, not exhaustive.",
   "Trusted: placement of the schedule points (every cross-thread read/write of runtime state found by reading the anchored files), sequential consistency, commuting thread scripts."),
 "C09": ("cmdsim","exploration","§5 C09","deterministic simulation, differential: typed Core twin vs bincode bridge vs JSON bridge on the same out-of-order history",
   "The typed core (itself judged against the reference model) and the bridges run the same history; decoded effect batches, views, resolve outcomes and routing (unique values) must agree per call, ids of outstanding requests must be pairwise distinct. Sampling, not proof.",
   "Trusted: serde/bincode/serde_json as the shell-side decoder."),
 "C11": ("seamsim","exploration","§5 C11","deterministic simulation of the environment seams: one history replayed under different hash-map seeds (interposed getrandom), a skewed and counted clock (interposed clock_gettime), different threads, perturbed heap and sampled separate processes; byte comparison of all outputs; equality oracle on API values",
   "Each generated history over a full app (HTTP with several headers, key-value, time, renders, out-of-order answers) is replayed on fresh cores while the simulator varies every environmental seam it owns; serialized effect batches and views must be byte-identical up to timer-id numbering, no clock may be read during core calls, and Response values must compare equal exactly when their contents are equal. Sampling over histories x seam settings, not proof.",
   "Trusted: the interposition of getrandom / clock_gettime really is the only source of hash seeds / wall time in the process (checked by the call counters); addresses are perturbed, not controlled."),
 "C12": ("cmdsim","fault_enumeration","§5 C12","deterministic simulation with exhaustive enumeration of corruption kinds at every position of sampled histories; bridge vs typed Core twin; allocation meter; catch_unwind; watchdog",
   "For each sampled valid history over the bincode or JSON bridge and each position, every enumerated corruption (all truncations, bit flips, length-field overwrites, variant swaps, JSON number attacks, deep nesting, random and wrong-type bytes, empty) is injected in its own run copy; the call must return, allocate within a bound, be accepted exactly when the harness decoder accepts the bytes, leave the app untouched when an event is rejected, and the rest of the history must equal a typed twin in which at most the addressed request is affected. Enumeration complete per sampled (history, position), sampling across histories.",
   "Trusted: serde/bincode/serde_json as the reference decoder, the typed Core as twin, the allocation bound."),
 "C13": ("cmdsim","exploration","§5 C13","deterministic simulation over long histories with drop-counted tokens and read-only occupancy accessors",
   "Long generated histories of start/resolve/drop/abort cycles; at every quiescent point executor tasks, command tasks, registry entries by kind and live tokens must be accounted for by the reference's outstanding work, and be zero after the drain phase and after the host is dropped. Sampling, not proof.",
   "Trusted: verif accessors, the reference model's notion of outstanding work."),
 "C15": ("capsim","exploration","§5 C15","deterministic simulation with peer-content fault injection: a simulated HTTP server returns generated results (any status, headers, bodies, errors) out of order; reference classification written from the statement; catch_unwind around every core call",
   "Several HTTP requests outstanding at once through all three API styles and each body expectation are answered out of order by a simulated server with generated, partly hostile results; every result must yield exactly one outcome, classified as the statement says, and no result may panic the core. Sampling over results x histories, not proof.",
   "Trusted: the reference classification incl. its text-decoding rules (utf-8 strict, latin1 table, BOM precedence left open); serde_json as conforming JSON decoder."),
 "C16": ("capsim","exploration","§5 C16","deterministic simulation: simulated server holding a redirect graph, middleware stacks with marker/short-circuit/request-issuing layers, reference evaluator of stack x graph",
   "Requests with generated middleware stacks (client-level through the verif hook, per-request through the public API) are sent through every API; the server answers from a redirect graph with cycles, over-long chains and odd Locations in PRNG order; the sequence of requests the server sees, the nesting of middleware marks, the round-trip bound and the final outcome are compared with a reference evaluator. Sampling, not proof.",
   "Trusted: the reference evaluator; where the statement is silent (redirect without usable Location) only bound, nesting and absence of panics are asserted."),
 "C17": ("capsim","exploration","§5 C17","deterministic simulation: simulated key-value store behind the shell with reordered completions and injected store errors, on Core, bincode bridge and JSON bridge, three API styles",
   "Histories with many outstanding key-value calls are completed by a simulated store in any order, with every error variant and odd but legal answers; per step the app's record must equal exactly what the store answered for each call, and the operation the shell sees exactly what was asked, including across bincode and JSON. The data-fidelity dimension is only sampled; simulation contributes the history dimension.",
   "Trusted: the in-memory reference store; the store answers with the matching response variant."),
 "C18": ("capsim","exploration","§5 C18","deterministic simulation: simulated timer service with a discrete-event clock, per-timer reference state machine, fire/clear/drop/answer interleavings on direct Command, Core and Bridge",
   "Seeded search over interleavings of first poll, fire, app clear, handle drop, request drop, clear confirmation and late/duplicate answers for several timers, both APIs; every request sent and every outcome reported is compared per step with a state machine written from the statement; ids must be unique across cores in the process. Sampling, not proof.",
   "Trusted: the per-timer reference machine; the service answers with the matching response type; legacy API judged at its documented observation point."),
}

NOT_YET = {}

NA = {
 "C10": "schema-versus-bytes agreement is a pure function of (type, value): no schedule, clock, fault or interleaving enters it, so deterministic simulation has nothing to decide",
 "C14": "the HttpRequest an app's builder calls produce is a pure function of the builder inputs (quantified over inputs and configurations only); no history, schedule or fault influences it",
 "C19": "instant/duration conversions are pure arithmetic on their argument; input-space work, not simulation",
 "C20": "the CLI registry is a pure function of the rustdoc description; invariance under renumbering is metamorphic input testing and its only environmental nondeterminism sits in a third-party type with no seam the simulator can own",
}

ALL = ["C%02d"%i for i in range(1,21)]

def main():
    checks=[]
    for pid,(engine,cat,ref,tech,text,note) in sorted(CHECKS.items()):
        checks.append({
            "property_id": pid,
            "quick_cmd": f"./check {pid} quick",
            "thorough_cmd": f"./check {pid} thorough",
            "evidence_file": f"/verif/evidence/{pid}.json",
            "replay_cmd_template": f"./check {pid} --replay {{path}}",
            "engine": engine,
            "level_claimed": {"category": cat, "text": text, "design_ref": ref},
            "level_note": note,
            "technique": tech,
        })
    na=[{"property_id":k,"reason":v} for k,v in sorted(NA.items())]
    for pid in ALL:
        if pid not in CHECKS and pid not in NA:
            na.append({"property_id":pid,"reason":"not claimed yet: its check is still being built in this round (see DESIGN.md §11); no verdict is offered"})
    na.sort(key=lambda x:x["property_id"])
    m={
      "version":1,
      "setup_cmd":"./setup.sh",
      "hooks":{
        "guard":"--cfg crux_verif",
        "enable":"sim/.cargo/config.toml passes rustflags = [\"--cfg\",\"crux_verif\"] to every crate of the simulator build, which depends on /repo's crates by path; nothing is enabled in /repo's own builds",
        "baseline_off_cmd":"cd /repo && RUSTUP_TOOLCHAIN=stable-x86_64-unknown-linux-gnu cargo nextest run --workspace --no-fail-fast --offline --test-threads 8",
        "source_commits":[l.split()[0] for l in HOOK_COMMITS],
        "add_only":True,
      },
      "engines":[
        {"name":"thrsim","path":"sim/src/thr","serves_properties":["C08"],"kind_free_text":"baton-passing controller over real threads at crux_core::verif schedule points; explicit preemption schedules"},
        {"name":"capsim","path":"sim/src/cap","serves_properties":sorted([k for k,v in CHECKS.items() if v[0]=="capsim"]),"kind_free_text":"simulated peers behind the shell (timer service with discrete-event clock, key-value store, HTTP server with redirect graphs) with per-capability reference models"},
        {"name":"seamsim","path":"sim/src/props/c11.rs + sim/src/seams.rs","serves_properties":["C11"],"kind_free_text":"replay under varied environment seams (hash seeds, clock, threads, processes)"},
        {"name":"cmdsim","path":"sim/src/cmd","serves_properties":sorted([k for k,v in CHECKS.items() if v[0]=="cmdsim"]),"kind_free_text":"generated program AST built twice (real crux API / reference interpreter), simulated shell with fault injection, six real hosts"},
      ],
      "checks":checks,
      "not_applicable":na,
      "notes":"Exit codes: 0 held, 1 violation (VIOLATION line with replay file), 2 harness error (no VIOLATION line). VERIF_SEED selects the master seed (default 1); VERIF_RUNS / VERIF_WORKERS override batch size and process count.",
    }
    json.dump(m,open("/verif/MANIFEST.json","w"),indent=1)
    print("wrote MANIFEST.json with",len(checks),"checks")
main()
