#!/bin/bash
# runs every claimed check at the quick tier exactly as registered (fresh evidence files); prints one line per check
cd "$(dirname "$0")"
rc=0
for id in $(python3 -c "import json;print(' '.join(c['property_id'] for c in json.load(open('MANIFEST.json'))['checks']))"); do
  out=$(./check $id quick 2>&1); r=$?
  echo "$out" | grep -E "^$id:|VIOLATION|HARNESS" | head -3
  [ $r -ne 0 ] && { echo "  -> $id exit $r"; rc=1; }
done
python3-vt - <<'PY'
import json,jsonschema,glob
jsonschema.validate(json.load(open('/verif/MANIFEST.json')),json.load(open('/root/.vp/MANIFEST.schema.json')))
for f in glob.glob('/verif/evidence/*.json'):
    jsonschema.validate(json.load(open(f)),json.load(open('/root/.vp/EVIDENCE.schema.json')))
print('manifest and evidence validate')
PY
exit $rc
