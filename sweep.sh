#!/bin/bash
# background sweep: several master seeds per check at a chosen run count (used with `vp run`)
# usage: ./sweep.sh "<ids>" <runs> <seed-from> <seed-to>
./setup.sh >/dev/null 2>&1 || { echo setup failed; exit 2; }
for id in $1; do
  for seed in $(seq $3 $4); do
    VERIF_SEED=$seed VERIF_RUNS=$2 ./target/release/crux-sim check $id quick 2>&1 | grep -v "^check\|KNOWN-FINDING" | cut -c1-600
  done
done
