#!/bin/bash
# background sweep (used with `vp run`): every claimed check at a given tier for a range of master seeds
# usage: ./sweep.sh "<ids>|all" <quick|thorough> <seed-from> <seed-to>
./setup.sh >/dev/null 2>&1 || { echo setup failed; exit 2; }
IDS="$1"
[ "$IDS" = all ] && IDS=$(python3 -c "import json;print(' '.join(c['property_id'] for c in json.load(open('MANIFEST.json'))['checks']))")
for seed in $(seq $3 $4); do
  for id in $IDS; do
    VERIF_SEED=$seed ./target/release/crux-sim check $id $2 2>&1 | grep -v "^check\|KNOWN-FINDING" | cut -c1-700 | sed "s/^/[seed $seed] /"
  done
done
